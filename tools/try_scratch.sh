#!/bin/bash
# usage: try_scratch.sh <worktree> <budget_s> <prop>...   : apply <worktree>/_out/patch.diff inside the scratch worktree,
# run the quick checks against THAT tree (VERIF_REPO), undo. /repo is not touched, so this can run beside other checks.
WT=$1; B=$2; shift 2
cd /verif
git -C $WT checkout -q -- . ; git -C $WT apply $WT/_out/patch.diff || { echo "patch does not apply"; exit 2; }
for p in "$@"; do VERIF_REPO=$WT VERIF_WORKERS=${VERIF_WORKERS:-8} VERIF_BUDGET_S=$B ./check $p quick 2>&1 | grep -v "^KNOWN-FINDING" | cut -c1-400 | grep -v "^  [A-Z]" | tail -6; echo "[$p exit=${PIPESTATUS[0]}]"; done
git -C $WT checkout -q -- .
