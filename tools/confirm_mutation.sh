#!/bin/bash
# usage: confirm_mutation.sh <worktree> <demo-package-dir-relative> 
# Confirms in the scratch worktree: demo passes without the change, fails with it, full suite passes with it.
WT=$1; PKG=$2
export PATH=/root/go/pkg/mod/golang.org/toolchain@v0.0.1-go1.26.1.linux-amd64/bin:$PATH GOTOOLCHAIN=local GOFLAGS=-mod=mod GOPROXY=off GOSUMDB=off
cd $WT || exit 2
git checkout -q -- . 
cp _out/demo_*_test.go $PKG/ 2>/dev/null
echo "== demo WITHOUT change (expect ok)"; go test -vet=off -count=1 -run 'Demo' ./$PKG 2>&1 | tail -3
git apply _out/patch.diff || { echo "PATCH DOES NOT APPLY"; exit 1; }
echo "== demo WITH change (expect FAIL)"; go test -vet=off -count=1 -run 'Demo' ./$PKG 2>&1 | tail -5
mkdir -p $WT/_hold && mv $PKG/demo_*_test.go $WT/_hold/ 
echo "== full suite WITH change (expect all ok)"; go build ./... && go test -vet=off -count=1 -timeout 25m ./... 2>&1 | grep -v "no test files" | tail -25
mv $WT/_hold/demo_*_test.go $PKG/
echo "== done"
