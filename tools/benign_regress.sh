#!/bin/bash
# usage: benign_regress.sh [budget_s] [ids...] : applies each behaviour-preserving change of /verif/benign in a scratch
# worktree (outside /repo and /verif, removed afterwards) and runs the quick checks named in its meta.json against it.
# Any VIOLATION line or non-zero exit is a false alarm of the machinery. Result: benign/REGRESS.txt
B=${1:-40}; shift
cd /verif
IDS=${@:-$(ls benign | grep '^b[0-9]')}
OUT=benign/REGRESS.txt; : > $OUT.tmp
for id in $IDS; do
  WT=/tmp/benign_$id; git -C /repo worktree remove --force $WT 2>/dev/null; git -C /repo worktree add -q --detach $WT HEAD || exit 2
  if ! git -C $WT apply /verif/benign/$id/patch.diff; then echo "$id: patch does not apply to the current tree" >> $OUT.tmp; git -C /repo worktree remove --force $WT; continue; fi
  for p in $(python3 -c "import json;print(' '.join(json.load(open('benign/$id/meta.json'))['checks']))"); do
    out=$(VERIF_REPO=$WT VERIF_WORKERS=${VERIF_WORKERS:-8} VERIF_BUDGET_S=$B ./check $p quick 2>&1); rc=$?
    nv=$(echo "$out" | grep -c '^VIOLATION')
    echo "$id $p exit=$rc violations=$nv $(echo "$out" | grep "quick:" | sed 's/ distinct.*//')" | tee -a $OUT.tmp
  done
  git -C /repo worktree remove --force $WT; rm -rf .build/scratch-out/benign_$id
done
mv $OUT.tmp $OUT
grep -v "exit=0 violations=0" $OUT && exit 1
echo "all silent"
