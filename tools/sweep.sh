#!/bin/bash
# usage: tools/sweep.sh <tier> <seed> [ids...]   - runs the checks of a tier one after the other (background sweeps
# via `vp run`; the check script works in the directory it lives in, so a snapshot never writes into /verif).
cd "$(dirname "$(readlink -f "$0")")/.." || exit 2
tier=$1; seed=$2; shift 2
ids=("$@"); [ ${#ids[@]} -eq 0 ] && ids=(C01 C02 C03 C04 C05 C06 C07 C08 C09 C10 C11 C12 C13 C14 C16 C19)
rc=0
for id in "${ids[@]}"; do
  VERIF_SEED=$seed ./check $id $tier 2>&1 | grep -v '^  ' | tail -6
  r=${PIPESTATUS[0]}; [ $r -ne 0 ] && { echo "== $id rc=$r"; rc=1; }
done
exit $rc
