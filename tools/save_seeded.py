#!/usr/bin/env python3
# usage: save_seeded.py <name> <worktree> <property> <demo pkg dir> <needs> <caught_by> 
import sys, os, shutil, json, glob, subprocess
name, wt, prop, pkg, needs, caught = sys.argv[1:7]
d = f"/verif/seeded/{name}"
os.makedirs(d, exist_ok=True)
shutil.copy(f"{wt}/_out/patch.diff", d)
for f in glob.glob(f"{wt}/_out/demo_*_test.go"):
    shutil.copy(f, d)
if os.path.exists(f"{wt}/_out/NOTES.md"):
    shutil.copy(f"{wt}/_out/NOTES.md", d)
log = ""
for pre in ("confirm_", "confirm2_"):
    fn = f"/tmp/{pre}{os.path.basename(wt)}.log"
    if os.path.exists(fn):
        log += open(fn).read()
ok_pk = min(11, sum(1 for l in log.split("full suite WITH change")[-1].splitlines() if l.startswith("ok")))
meta = {
 "property": prop,
 "demo_package_dir": pkg,
 "needs_to_manifest": needs,
 "confirmed": {
   "how": "tools/confirm_mutation.sh / tools/confirm2.sh in a scratch worktree (go1.26.1 toolchain, offline): demo passes on the clean tree, fails with patch.diff applied; go build ./... and the full existing suite (go test -vet=off -count=1 ./...) pass with patch.diff applied",
   "suite_packages_ok_with_change": ok_pk,
   "demo_fails_with_change": "FAIL" in log.split("demo WITH change")[-1].split("full suite")[0],
   "suite_failures_with_change": sum(1 for l in log.split("full suite WITH change")[-1].splitlines() if l.startswith("FAIL") or l.startswith("--- FAIL")),
 },
 "checks_run": "tools/try_scratch.sh <worktree> <budget> <ID> (patch applied in the scratch worktree, quick check run against it through VERIF_REPO) and/or tools/try_mutation.sh (git -C /repo apply patch.diff; ./check <ID> quick; git -C /repo checkout -- .)",
 "caught_by": caught,
 "base_commit": subprocess.run(["git","-C","/repo","rev-parse","--short","HEAD"],capture_output=True,text=True).stdout.strip(),
}
json.dump(meta, open(f"{d}/meta.json","w"), indent=1)
print("saved", d, meta["confirmed"])
