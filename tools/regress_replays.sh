#!/bin/bash
# Replays every file of /verif/regress (violations that turned out to be false alarms of the machinery and were
# corrected) against the current tree: none may reproduce.
cd /verif; rc=0
for f in regress/*.json; do
  out=$(./check replay $f 2>&1 | grep -v '^KNOWN-FINDING' | tail -n 2)
  if echo "$out" | grep -q "did not reproduce"; then echo "ok   $f"; else echo "FAIL $f: $out"; rc=1; fi
done
exit $rc
