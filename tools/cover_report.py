#!/usr/bin/env python3
# usage: cover_report.py <coverdir> [prop-prefix ...]
# Statement reach of the simulation: merges the VERIF_COVER files written by the workers and lists the
# instrumented statements of server/rib/client that no run executed (with their source text).
import sys, json, glob, os, collections
cov = sys.argv[1]; want = sys.argv[2:]
builds = sorted(glob.glob("/verif/.build/t-*/rw/sites.txt"), key=os.path.getmtime)
sites = [l.strip() for l in open(builds[-1]) if l.strip()]
hits = collections.Counter()
for f in glob.glob(cov + "/*.json"):
    if want and not any(os.path.basename(f).startswith(w + "-") for w in want): continue
    for k, v in json.load(open(f)).items(): hits[k] += v
src = {}
for d in ("server", "rib", "client"):
    for f in glob.glob(f"/repo/{d}/*.go"):
        src.setdefault(os.path.basename(f), []).append(f)
tot = len(sites); hit = sum(1 for s in sites if hits[s] > 0)
print(f"statements instrumented {tot}, reached {hit} ({100.0*hit/tot:.1f}%)")
by = collections.defaultdict(list)
for s in sites:
    if hits[s] == 0:
        fn, ln = s.rsplit(":", 1); by[fn].append(int(ln))
for fn in sorted(by):
    paths = src.get(fn, [])
    lines = open(paths[0]).read().split("\n") if len(paths) == 1 else None
    print(f"== {fn}: {len(by[fn])} unreached")
    for ln in sorted(by[fn]):
        txt = lines[ln-1].strip() if lines and ln <= len(lines) else ""
        print(f"  {ln}: {txt[:140]}")
