#!/bin/bash
# usage: try_mutation.sh <patch.diff> <budget_s> <prop>...   : apply to /repo, run quick checks, undo.
P=$1; B=$2; shift 2
cd /verif
git -C /repo diff --quiet || { echo "/repo is dirty"; exit 2; }
git -C /repo apply $P || { echo "patch does not apply"; exit 2; }
for p in "$@"; do VERIF_BUDGET_S=$B ./check $p quick 2>&1 | grep -v "^KNOWN-FINDING" | cut -c1-500; echo "[$p exit=${PIPESTATUS[0]}]"; done
git -C /repo checkout -- .
git -C /repo status --short | head -3
