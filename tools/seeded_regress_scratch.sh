#!/bin/bash
# usage: seeded_regress_scratch.sh [lanes] [ids...]   (default: 3 lanes, every /verif/seeded/m*)
# Sensitivity regression WITHOUT touching /repo: every seeded change is applied to its own scratch worktree of
# /repo's HEAD, the quick check of its property is run against that tree (VERIF_REPO), the worktree is removed.
# Result lines go to seeded/REGRESS.txt (caught / MISSED / PATCH-DOES-NOT-APPLY, class of the first violation).
cd /verif || exit 2
lanes=${1:-3}; shift
ids=("$@"); [ ${#ids[@]} -eq 0 ] && ids=($(ls seeded | grep '^m'))
tmp=$(mktemp -d /tmp/sregress.XXXX)
one() {
  id=$1; prop=$(jq -r .property seeded/$id/meta.json); wt=$tmp/$id
  if [ "$(jq -r '.not_caught_reason // ""' seeded/$id/meta.json)" != "" ]; then echo "$id $prop NOT-CLAIMED (see meta.json: not_caught_reason)"; return; fi
  if [ "$(jq -r '.masked_on_current_tree // ""' seeded/$id/meta.json)" != "" ]; then echo "$id $prop MASKED (no longer observable on the current tree, see meta.json)"; return; fi
  chk=$(jq -r '.check_with // ""' seeded/$id/meta.json); [ -n "$chk" ] && prop=$chk   # (caught by another property's check than the one it was written against)
  b=50; case $prop in C11|C19) b=80;; esac
  git -C /repo worktree add --detach $wt HEAD >/dev/null 2>&1 || { echo "$id $prop WORKTREE-FAILED"; return; }
  if ! git -C $wt apply $PWD/seeded/$id/patch.diff 2>/dev/null && ! git -C $wt apply -3 $PWD/seeded/$id/patch.diff 2>/dev/null; then
    echo "$id $prop PATCH-DOES-NOT-APPLY"
  else
    log=$(VERIF_REPO=$wt VERIF_WORKERS=5 VERIF_BUDGET_S=$b ./check $prop quick 2>&1); rc=$?
    cls=$(echo "$log" | grep -m1 -o 'class=[^ ]* sig="[^"]*"')
    if [ $rc -eq 1 ]; then echo "$id $prop caught  $cls"
    elif [ $rc -eq 0 ]; then echo "$id $prop MISSED (budget ${b}s, 5 workers)"
    else echo "$id $prop HARNESS-TROUBLE rc=$rc: $(echo "$log" | tail -2 | tr '\n' ' ')"; fi
  fi
  git -C /repo worktree remove --force $wt >/dev/null 2>&1; rm -rf .build/scratch-out/$id
}
export -f one; export tmp
printf '%s\n' "${ids[@]}" | xargs -P $lanes -I{} bash -c 'one {}' > $tmp/out.txt
# merge: lines of the ids just run replace their old lines, the others stay
touch seeded/REGRESS.txt
awk 'NR==FNR{new[$1]=$0; next} !($1 in new){print}' $tmp/out.txt seeded/REGRESS.txt > $tmp/merged.txt; cat $tmp/out.txt >> $tmp/merged.txt
sort -V $tmp/merged.txt > seeded/REGRESS.txt; cat seeded/REGRESS.txt | awk '{print $3}' | sort | uniq -c
rm -rf $tmp; git -C /repo worktree prune
