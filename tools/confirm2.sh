#!/bin/bash
# usage: confirm2.sh <worktree> [nosuite]
# Confirms in the scratch worktree: every demo test passes without the change, fails with it,
# and (unless "nosuite") go build + the full existing suite pass with it. Demo files are placed by their package clause.
WT=$1; NOSUITE=$2
export PATH=/root/go/pkg/mod/golang.org/toolchain@v0.0.1-go1.26.1.linux-amd64/bin:$PATH GOTOOLCHAIN=local GOFLAGS=-mod=mod GOPROXY=off GOSUMDB=off
cd $WT || exit 2
git checkout -q -- .
find . -name 'demo_*_test.go' -not -path './_out/*' -not -path './_hold/*' -delete
declare -A DIRS
for f in _out/demo_*_test.go; do
  pk=$(grep -m1 '^package ' $f | awk '{print $2}'); pk=${pk%_test}
  case $pk in ccli) d=cmd/ccli;; *) d=$pk;; esac
  cp $f $d/; DIRS[$d]=1
done
RUN=$(grep -h -o '^func Test[A-Za-z0-9_]*' _out/demo_*_test.go | sed 's/func //' | sort -u | paste -sd'|')
RACE=""; grep -lq 'go:build race' _out/demo_*_test.go 2>/dev/null && RACE="-race"
echo "== demo tests: ^($RUN)\$ in ${!DIRS[@]} $RACE"
echo "== demo WITHOUT change (expect ok)"
for d in "${!DIRS[@]}"; do go test $RACE -vet=off -count=1 -run "^($RUN)\$" ./$d 2>&1 | tail -3; done
git apply _out/patch.diff || { echo "PATCH DOES NOT APPLY"; exit 1; }
echo "== demo WITH change (expect FAIL)"
for d in "${!DIRS[@]}"; do go test $RACE -vet=off -count=1 -run "^($RUN)\$" ./$d 2>&1 | grep -E "^(--- FAIL|FAIL|ok|WARNING: DATA RACE)" | sort | uniq -c | head -12; done
for d in "${!DIRS[@]}"; do rm -f $d/demo_*_test.go; done
if [ -z "$NOSUITE" ]; then
  echo "== full suite WITH change (expect all ok)"; go build ./... && go test -vet=off -count=1 -timeout 25m ./... 2>&1 | grep -v "no test files" | tail -25
fi
git checkout -q -- .
echo "== done"
