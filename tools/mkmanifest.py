#!/usr/bin/env python3
# Regenerates /verif/MANIFEST.json from the table below.
import json, subprocess
hooks_commit = subprocess.run(["git","-C","/repo","log","--format=%h","-1","--","rib/verif_access.go"],capture_output=True,text=True).stdout.strip()
TB = ("trusted base: simnet's model of grpc stream semantics (DESIGN.md 3.1), the reference model in sim/harness/model.go, "
      "serial (sequentially consistent) scheduling with preemption at statement boundaries of server/rib/client; clean batches are evidence over sampled schedules/inputs, not proof")
checks = {
 "C01": ("exploration", "seeded single-primary histories against the real server under the deterministic scheduler; reference RIB model replayed in acknowledgement order and compared with RIBContents/Get at every exact quiescent point", "6 C01", "deterministic simulation: seeded histories + reference-model refinement in acknowledgement order"),
 "C02": ("exploration", "same runs with dependency-heavy arrival orders and seeded pending-retry (map) order; every ack justified by model resolvability, held set (hook) equals the model's and contains nothing resolvable, no dangling references", "6 C02", "deterministic simulation: seeded arrival/retry orders + resolvability/completeness oracle"),
 "C03": ("exploration", "histories that create/retarget/delete/flush references followed by DELETE sweeps; DELETE verdict == model referrer count, reference counters (hook) == referrers after every step", "6 C03", "deterministic simulation: seeded histories + referrer-count oracle over verdicts and counters"),
 "C06": ("exploration", "per-stream result histories (FIB-ack on/off, hand-overs with held operations): one terminal verdict per id, FIB after RIB, no foreign ids, nothing unanswered at quiescence unless legitimately held", "6 C06", "deterministic simulation: recorded result history checked for exactly-once/ordering"),
 "C07": ("exploration", "payloads over every fluent-settable field; every (network instance|all) x (table|ALL) Get over the simulated stream compared field for field with the model, ALL == disjoint union, FromGetResponses round trip; a Get that runs concurrently with modifications of the same instances must equal one state of each instance within the Get's duration (payload space sampled)", "6 C07", "deterministic simulation: seeded payload/history generation + model equality on the streamed Get"),
 "C08": ("exploration", "seeded RIB shapes x flush targets x election fields; model flush + specification status table; state, counters and follow-up operations compared afterwards", "6 C08", "deterministic simulation: seeded RIB shapes and request table vs model + spec decision table"),
 "C16": ("exploration", "servers with change hooks, network instances created before/after registration; fold(notifications) == model at every quiescent point; resolved-entry snapshots checked and scribbled over by delayed hook tasks", "6 C16", "deterministic simulation: seeded histories/configuration orders + folding oracle"),
}
na = [
 ("C15","the reconciler is a sequential pure function from two RIB values to an operation list; no schedule, clock, fault or peer is involved in its truth (needs property-based testing, not simulation)"),
 ("C17","the chk helpers are pure predicates over their arguments; nothing to schedule or to fault"),
 ("C18","the fluent builders are a sequential single-caller API (id counter, proto cloning); nothing to schedule or to fault"),
]
import sys
extra = {}
try:
    extra = json.load(open("/verif/tools/manifest_extra.json"))
except Exception: pass
for k,v in extra.get("checks",{}).items(): checks[k]=tuple(v)
claimed=set(checks)
for pid,reason in extra.get("not_applicable",[]): na.append((pid,reason))
m = {
 "version": 1,
 "setup_cmd": "cd /verif && ./check build && ./check modeltest",
 "hooks": {
  "guard": "verif",
  "enable": "go test -c -tags verif -overlay <generated>: sim/cmd/rewrite instruments server/rib/client from /repo's working tree into /verif/.build (nothing under /repo is modified); the only files in /repo are the add-only accessors rib/verif_access.go and server/verif_access.go behind //go:build verif",
  "baseline_off_cmd": "cd /repo && GOFLAGS=-mod=mod GOTOOLCHAIN=auto go test -vet=off -count=1 -timeout 25m ./...",
  "source_commits": [hooks_commit],
  "add_only": True
 },
 "engines": [{"name":"simrt+simnet","path":"sim","serves_properties":sorted(claimed),"kind_free_text":"deterministic simulation with fault injection: seeded scheduler over a testing/synctest bubble, source-instrumented server/rib/client, simulated gRPC transport, reference model, shrinking replay files"}],
 "checks": [
  {"property_id": pid, "quick_cmd": f"./check {pid} quick", "thorough_cmd": f"./check {pid} thorough", "evidence_file": f"/verif/evidence/{pid}.json",
   "replay_cmd_template": "./check replay {path}", "engine": "simrt+simnet",
   "level_claimed": {"category": lvl, "text": txt, "design_ref": "DESIGN.md section " + ref},
   "level_note": TB, "technique": tech}
  for pid,(lvl,txt,ref,tech) in sorted(checks.items())],
 "notes": "exit 2 (never a VIOLATION line) = build or harness trouble; VERIF_SEED, VERIF_TIER, VERIF_BUDGET_S, VERIF_WORKERS are honoured; known findings are in known_findings.json with reproducers under known/",
 "not_applicable": [{"property_id":p,"reason":r} for p,r in na if p not in claimed]
}
json.dump(m, open("/verif/MANIFEST.json","w"), indent=1)
print("claimed", sorted(claimed))
