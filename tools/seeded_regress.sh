#!/bin/bash
# usage: seeded_regress.sh [ids...]   (default: every /verif/seeded/*)
# Sensitivity regression: applies each seeded change to /repo, runs the quick check of its property,
# restores /repo, and writes seeded/REGRESS.txt (caught / MISSED, class of the first violation).
# /repo must be clean and nothing else may use it meanwhile.
cd /verif || exit 2
[ -n "$(git -C /repo status --porcelain)" ] && { echo "/repo is not clean"; exit 2; }
ids=("$@"); [ ${#ids[@]} -eq 0 ] && ids=($(ls seeded | grep '^m'))
out=seeded/REGRESS.txt; [ $# -eq 0 ] && : > $out
for id in "${ids[@]}"; do
  prop=$(jq -r .property seeded/$id/meta.json)
  if [ "$(jq -r '.masked_on_current_tree // ""' seeded/$id/meta.json)" != "" ]; then echo "$id $prop MASKED (no longer observable on the current tree, see meta.json)" | tee -a $out; continue; fi
  b=45; case $prop in C11|C19) b=75;; esac
  git -C /repo apply /verif/seeded/$id/patch.diff || { echo "$id $prop PATCH-DOES-NOT-APPLY" | tee -a $out; continue; }
  log=$(VERIF_BUDGET_S=$b ./check $prop quick 2>&1); rc=$?
  git -C /repo checkout -- . ; git -C /repo clean -fdq
  cls=$(echo "$log" | grep -m1 -o 'class=[^ ]* sig="[^"]*"')
  if [ $rc -eq 1 ]; then echo "$id $prop caught  $cls" | tee -a $out
  elif [ $rc -eq 0 ]; then echo "$id $prop MISSED (budget ${b}s)" | tee -a $out
  else echo "$id $prop HARNESS-TROUBLE rc=$rc: $(echo "$log" | tail -2 | tr '\n' ' ')" | tee -a $out; fi
done
