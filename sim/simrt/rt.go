// Package simrt is the deterministic scheduler: one controller goroutine (the
// root of a testing/synctest bubble) releases exactly one parked task per step;
// every choice comes from the tapes; the fake clock advances only when nothing
// is runnable. Outside a run (no active Sim, or a goroutine that is not a
// task) every entry point is a no-op, so instrumented code behaves as shipped.
package simrt

import (
	"fmt"
	"hash/fnv"
	"math"
	"math/rand/v2"
	"runtime"
	"runtime/debug"
	"sort"
	"strconv"
	"strings"
	"sync"
	"sync/atomic"
	"testing/synctest"
	"time"
)

func getg() uintptr

const inf = math.MaxInt64 / 4

type Policy int

const (
	// Coarse switches only at synchronisation points (lock, unlock, go, select,
	// channel, transport).
	Coarse Policy = iota
	// Fine additionally preempts between statements, with tape-drawn budgets.
	Fine
	// PCT: random task priorities, highest eligible runs; Depth priority change
	// points at tape-drawn statement counts.
	PCT
	// FIFO: one canonical schedule - the running task keeps running until it
	// blocks, then the task that has been waiting longest runs. No tape is consumed.
	FIFO
)

func (p Policy) String() string { return [...]string{"coarse", "fine", "pct", "fifo"}[p] }

type Config struct {
	Policy     Policy
	PCTDepth   int
	MaxSteps   int64         // controller steps before the run is cut (not a violation)
	StuckAfter time.Duration // simulated idle time after which the run is declared stuck
	KeepEvents int
	// CoRelease: release a tape-chosen SET of parked tasks per round instead of
	// one (race-detector mode: segments released in the same round are concurrent
	// unless the program's own synchronisation orders them).
	CoRelease bool
}

type Task struct {
	ID      int
	Name    string
	Site    string
	g       uintptr
	resume  chan struct{}
	budget  int64 // statements left
	sbudget int64 // sync points left
	prio    int

	// all below: written by the task while it holds the baton or is parking,
	// read by the controller after synctest.Wait.
	parkedAt              string
	cond                  func() bool
	condDesc              string
	idleOnly              bool
	deadline              time.Duration // simulated time at which a timed wait expires; 0 = none
	timedOut              bool
	running               atomic.Bool // co-release mode: released in the current round
	parkSeq               int64
	readySeq, readySeqFor int64
	done                  bool
	spawned               int
	// Holding lists descriptions of sim locks held (diagnostics).
	Holding map[string]int
	// co-release mode: task-private counters, PRNG and id sequence
	probes map[string]int64
	rng    *rand.Rand
	idSeq  int
}

type Event struct {
	Step int64
	Task int
	Kind string
	What string
}

type Sim struct {
	handoff bool // set by HandOff: the next pick prefers a lock waiter
	cfg   Config
	Tapes *Tapes

	mu     sync.Mutex
	parked []*Task
	tasks  []*Task
	byG    gTable // goroutine -> *Task, lock-free: no cross-task synchronisation beyond parent->child

	cur  atomic.Pointer[Task]
	wake chan struct{}

	start      time.Time
	Steps      int64
	Switches   int64
	Stmts      atomic.Int64
	hash       uint64
	events     []Event
	evPos      int
	ilHash     uint64 // interleaving signature: sequence of (task, lock site) acquisitions
	panicInfo  atomic.Pointer[string]
	pctPoints  []int64
	lastTask   *Task
	stopping   atomic.Bool
	idSeq      int
	parkCount  int64
	readyCount int64
	logMu      sync.Mutex // co-release mode: Log/Probe/Fault/Choose/NextID may be called concurrently

	// Probes are named reach counters ("this rare thing happened").
	Probes map[string]int64
	// Faults counts fired faults by kind.
	Faults map[string]int64
}

type Outcome struct {
	Kind        string // "ok", "panic", "stuck", "maxsteps"
	Detail      string
	Steps       int64
	Switches    int64
	Stmts       int64
	SimTime     time.Duration
	Fingerprint uint64
	Interleave  uint64
	Tasks       int
}

var active atomic.Pointer[Sim]

// Active returns the running simulation, or nil.
func Active() *Sim { return active.Load() }

func (s *Sim) taskOfG() *Task { return s.byG.load(getg()) }

// gTable is an open-addressing hash table keyed by goroutine pointer. Inserts use
// CAS on the key slot, lookups plain atomic loads, so a lookup synchronises only
// with the insert of the slots it probes (the spawn of that very task), never
// with other tasks' activity - which matters under the race detector.
const gTableSize = 1 << 13

type gTable struct {
	keys [gTableSize]atomic.Uintptr
	vals [gTableSize]atomic.Pointer[Task]
}

func gHash(g uintptr) int { return int((g>>6)*0x9E3779B1) & (gTableSize - 1) }

func (t *gTable) store(g uintptr, v *Task) {
	for i, n := gHash(g), 0; n < gTableSize; i, n = (i+1)&(gTableSize-1), n+1 {
		k := t.keys[i].Load()
		if k == g || (k == 0 && t.keys[i].CompareAndSwap(0, g)) {
			t.vals[i].Store(v)
			return
		}
	}
	panic("simrt: task table full")
}

func (t *gTable) load(g uintptr) *Task {
	for i, n := gHash(g), 0; n < gTableSize; i, n = (i+1)&(gTableSize-1), n+1 {
		k := t.keys[i].Load()
		if k == g {
			return t.vals[i].Load()
		}
		if k == 0 {
			return nil
		}
	}
	return nil
}

// remove keeps the key slot (goroutine pointers are reused by the runtime) and clears the value.
func (t *gTable) remove(g uintptr) {
	for i, n := gHash(g), 0; n < gTableSize; i, n = (i+1)&(gTableSize-1), n+1 {
		k := t.keys[i].Load()
		if k == g {
			t.vals[i].Store(nil)
			return
		}
		if k == 0 {
			return
		}
	}
}

// Current returns the calling goroutine's task, or nil outside a run.
func Current() *Task {
	s := active.Load()
	if s == nil {
		return nil
	}
	return s.taskOfG()
}

// Now returns the simulated time since the start of the run.
func (s *Sim) Now() time.Duration { return time.Since(s.start) }

func (s *Sim) mix(v uint64) {
	h := s.hash
	for i := 0; i < 8; i++ {
		h ^= v & 0xff
		h *= 1099511628211
		v >>= 8
	}
	s.hash = h
}

func (s *Sim) mixStr(str string) {
	h := s.hash
	for i := 0; i < len(str); i++ {
		h ^= uint64(str[i])
		h *= 1099511628211
	}
	s.hash = h
}

// Log records a canonical event: it is hashed into the run fingerprint and kept
// in a ring for the replay file. It never draws from a tape or reads a real clock.
func (s *Sim) Log(kind, what string) {
	if s.cfg.CoRelease {
		return // no shared log under the race detector: it would order every task with every other
	}
	tid := -1
	if t := s.cur.Load(); t != nil {
		tid = t.ID
	}
	s.logAs(tid, kind, what)
}

func (s *Sim) logAs(tid int, kind, what string) {
	s.mix(uint64(s.Steps))
	s.mix(uint64(tid + 1))
	s.mixStr(kind)
	s.mixStr(what)
	if s.cfg.KeepEvents > 0 {
		e := Event{Step: s.Steps, Task: tid, Kind: kind, What: what}
		if len(s.events) < s.cfg.KeepEvents {
			s.events = append(s.events, e)
		} else {
			s.events[s.evPos%s.cfg.KeepEvents] = e
		}
		s.evPos++
	}
}

// Events returns the retained tail of the event log in order.
func (s *Sim) Events() []Event {
	if len(s.events) < s.cfg.KeepEvents || s.cfg.KeepEvents == 0 {
		return append([]Event(nil), s.events...)
	}
	n := s.cfg.KeepEvents
	out := make([]Event, 0, n)
	for i := 0; i < n; i++ {
		out = append(out, s.events[(s.evPos+i)%n])
	}
	return out
}

func (s *Sim) Probe(name string) {
	if s.cfg.CoRelease {
		if t := s.taskOfG(); t != nil {
			t.probes[name]++ // task-private, merged by the controller at the end
		}
		return
	}
	s.Probes[name]++
}

func (s *Sim) Fault(kind string) {
	if s.cfg.CoRelease {
		if t := s.taskOfG(); t != nil {
			t.probes["fault:"+kind]++
		}
		return
	}
	s.Faults[kind]++
	s.Log("fault", kind)
}

// CoRelease reports whether the active simulation runs in co-release (race detector) mode.
func CoRelease() bool {
	s := active.Load()
	return s != nil && s.cfg.CoRelease
}

func (s *Sim) hasBaton(t *Task) bool {
	if s.cfg.CoRelease {
		return t.running.Load()
	}
	return s.cur.Load() == t
}

// NoteAcquire feeds the interleaving signature (order of critical sections).
func (s *Sim) NoteAcquire(t *Task, site string) {
	if s.cfg.CoRelease {
		return
	}
	h := s.ilHash
	h ^= uint64(t.ID + 1)
	h *= 1099511628211
	for i := 0; i < len(site); i++ {
		h ^= uint64(site[i])
		h *= 1099511628211
	}
	s.ilHash = h
}

// Choose draws from a tape.
func (s *Sim) Choose(tape string, n int) int {
	if s.cfg.CoRelease {
		if n <= 1 {
			return 0
		}
		if t := s.taskOfG(); t != nil {
			return t.rng.IntN(n) // task-private PRNG (seed, task name): no shared tape under the race detector
		}
	}
	return s.Tapes.Choose(tape, n)
}

// ---------------------------------------------------------------------------
// task side

func (s *Sim) newTask(parent *Task, site string) *Task {
	t := &Task{resume: make(chan struct{}), Site: site, Holding: map[string]int{}, probes: map[string]int64{}}
	if parent != nil {
		parent.spawned++
		t.Name = fmt.Sprintf("%s.%d", parent.Name, parent.spawned)
	} else {
		t.Name = "0"
	}
	s.mu.Lock()
	t.ID = len(s.tasks)
	s.tasks = append(s.tasks, t)
	s.mu.Unlock()
	if s.cfg.Policy == PCT {
		t.prio = 1000 + s.Choose("sch", 1000)
	}
	if s.cfg.CoRelease {
		h := fnv.New64a()
		h.Write([]byte(t.Name))
		t.rng = rand.New(rand.NewPCG(s.Tapes.Seed, h.Sum64()))
	}
	return t
}

// park blocks the calling task until the controller releases it.
func (s *Sim) park(t *Task, site string) {
	t.parkedAt = site
	t.running.Store(false)
	s.mu.Lock()
	s.parkCount++
	t.parkSeq = s.parkCount
	s.parked = append(s.parked, t)
	s.mu.Unlock()
	select {
	case s.wake <- struct{}{}:
	default:
	}
	<-t.resume
	if s.stopping.Load() {
		// The run is over; this goroutine is abandoned.
		select {}
	}
}

// Statement reach (VERIF_COVER): which instrumented statements of server/rib/client a batch of
// runs executed inside a simulation. A measuring aid only (./check cover): it draws nothing
// from the tapes and never decides which task runs next.
var (
	coverOn  bool
	coverMu  sync.Mutex
	coverHit = map[string]int64{}
)

// CoverEnable switches statement-reach recording on for this process.
func CoverEnable() { coverOn = true }

// CoverSnapshot returns the statements reached so far.
func CoverSnapshot() map[string]int64 {
	coverMu.Lock()
	defer coverMu.Unlock()
	out := make(map[string]int64, len(coverHit))
	for k, v := range coverHit {
		out[k] = v
	}
	return out
}

// Point is a statement-level preemption point.
func Point(site string) {
	s := active.Load()
	if s == nil {
		return
	}
	t := s.taskOfG()
	if t == nil {
		return
	}
	if coverOn {
		coverMu.Lock()
		coverHit[site]++
		coverMu.Unlock()
	}
	if s.cfg.CoRelease {
		if t.running.Load() {
			return // statements never preempt in co-release mode (and no shared counter is touched)
		}
	} else if s.Stmts.Add(1); true && s.cur.Load() == t && t.budget > 0 {
		t.budget--
		return
	}
	s.park(t, site)
}

// Sync is a preemption point at a synchronisation operation.
func Sync(site string) {
	s := active.Load()
	if s == nil {
		return
	}
	t := s.taskOfG()
	if t == nil {
		return
	}
	if s.hasBaton(t) && t.sbudget > 0 && t.budget > 0 {
		t.sbudget--
		return
	}
	s.park(t, site)
}

// WaitUntil parks the calling task until cond (evaluated by the controller at
// quiescent instants, and once by the caller first) holds. timeout<=0 means no
// timeout; otherwise the simulated deadline. It returns false on timeout.
func WaitUntil(site, desc string, timeout time.Duration, cond func() bool) bool {
	s := active.Load()
	var t *Task
	if s != nil {
		t = s.taskOfG()
	}
	if t == nil {
		panic("simrt.WaitUntil outside a task: " + site)
	}
	if !s.cfg.CoRelease && s.cur.Load() == t && cond() {
		return true // (co-release: conditions are only ever evaluated by the controller, at quiescence)
	}
	t.cond, t.condDesc = cond, desc
	if timeout > 0 {
		t.deadline = s.Now() + timeout
	}
	s.park(t, site)
	t.cond, t.condDesc, t.deadline = nil, "", 0
	to := t.timedOut
	t.timedOut = false
	return !to
}

// Yield parks the calling task n times: a delay measured in scheduling rounds
// rather than simulated time (which only advances when everything is blocked),
// so that the caller's next action can overlap with other tasks' activity.
func Yield(site string, n int) {
	s := active.Load()
	if s == nil {
		return
	}
	t := s.taskOfG()
	if t == nil {
		return
	}
	for i := 0; i < n; i++ {
		s.park(t, site)
	}
}

// Sleep advances simulated time for the calling task.
func Sleep(site string, d time.Duration) {
	if d <= 0 {
		Sync(site)
		return
	}
	WaitUntil(site, "sleep", d, func() bool { return false })
}

// AwaitQuiescence parks the calling task until no other task is runnable: the
// exact quiescent instant of the rest of the system.
func AwaitQuiescence(site string) {
	s := active.Load()
	t := s.taskOfG()
	if t == nil {
		panic("AwaitQuiescence outside task")
	}
	t.idleOnly = true
	s.park(t, site)
	t.idleOnly = false
}

// Go starts fn as a new task (or a plain goroutine outside a run).
func Go(site string, fn func()) {
	s := active.Load()
	var parent *Task
	if s != nil {
		parent = s.taskOfG()
	}
	if parent == nil {
		go fn()
		return
	}
	s.spawn(parent, site, fn)
	Sync(site)
}

func (s *Sim) spawn(parent *Task, site string, fn func()) *Task {
	t := s.newTask(parent, site)
	go func() {
		t.g = getg()
		s.byG.store(t.g, t)
		defer s.exit(t)
		s.park(t, "spawn:"+site)
		fn()
	}()
	return t
}

func (s *Sim) exit(t *Task) {
	if r := recover(); r != nil {
		if _, ok := r.(abandon); !ok {
			msg := fmt.Sprintf("task %s (%s) panicked: %v\n%s", t.Name, t.Site, r, trimStack(string(debug.Stack())))
			s.panicInfo.CompareAndSwap(nil, &msg)
		}
	}
	t.done = true
	s.byG.remove(t.g)
	select {
	case s.wake <- struct{}{}:
	default:
	}
}

type abandon struct{}

func trimStack(st string) string {
	lines := strings.Split(st, "\n")
	if len(lines) > 60 {
		lines = lines[:60]
	}
	return strings.Join(lines, "\n")
}

// ---------------------------------------------------------------------------
// controller side

// Run executes main as task 0 under the controller and returns when main has
// finished (remaining tasks are abandoned), a task panicked, the system is
// stuck, or MaxSteps is exceeded. It must be called from the root goroutine of
// a synctest bubble.
func Run(cfg Config, tapes *Tapes, main func()) (*Sim, *Outcome) {
	if cfg.MaxSteps == 0 {
		cfg.MaxSteps = 200000
	}
	if cfg.StuckAfter == 0 {
		cfg.StuckAfter = 2 * time.Hour
	}
	s := &Sim{cfg: cfg, Tapes: tapes, wake: make(chan struct{}, 1), start: time.Now(),
		hash: 14695981039346656037, ilHash: 14695981039346656037,
		Probes: map[string]int64{}, Faults: map[string]int64{}}
	if cfg.Policy == PCT {
		for i := 0; i < cfg.PCTDepth; i++ {
			s.pctPoints = append(s.pctPoints, int64(1+s.Choose("sch", 4000)))
		}
		sort.Slice(s.pctPoints, func(i, j int) bool { return s.pctPoints[i] < s.pctPoints[j] })
	}
	if !active.CompareAndSwap(nil, s) {
		panic("simrt: a simulation is already active")
	}
	defer active.Store(nil)

	root := s.newTask(nil, "main")
	go func() {
		root.g = getg()
		s.byG.store(root.g, root)
		defer s.exit(root)
		s.park(root, "spawn:main")
		main()
	}()

	out := &Outcome{Kind: "ok"}
	var idle time.Duration
	quantum := time.Millisecond
	graced := false
	for {
		synctest.Wait()
		if p := s.panicInfo.Load(); p != nil {
			out.Kind, out.Detail = "panic", *p
			break
		}
		if root.done {
			break
		}
		if s.Steps >= cfg.MaxSteps {
			out.Kind, out.Detail = "maxsteps", s.describeTasks()
			break
		}
		now := s.Now()
		s.mu.Lock()
		parked := append([]*Task(nil), s.parked...)
		s.mu.Unlock()
		sort.Slice(parked, func(i, j int) bool { return parked[i].ID < parked[j].ID })
		// the order in which tasks woken in the same step parked is real-time noise:
		// (re)number them here, in task-id order, for the FIFO policy
		for _, t := range parked {
			if t.readySeq == 0 || t.readySeqFor != t.parkSeq {
				s.readyCount++
				t.readySeq, t.readySeqFor = s.readyCount, t.parkSeq
			}
		}
		var elig, idleElig []*Task
		var nextDeadline time.Duration
		for _, t := range parked {
			ok := t.cond == nil
			if !ok {
				ok = t.cond()
			}
			if !ok && t.deadline > 0 {
				if t.deadline <= now {
					ok = true
					t.timedOut = true
				} else if nextDeadline == 0 || t.deadline < nextDeadline {
					nextDeadline = t.deadline
				}
			}
			if !ok {
				continue
			}
			if t.idleOnly {
				idleElig = append(idleElig, t)
			} else {
				elig = append(elig, t)
			}
		}
		if len(elig) == 0 && len(idleElig) > 0 && !graced && !cfg.CoRelease {
			// Before "everything has come to rest" is announced to a task waiting for exactly that: code under
			// test that is blocked on a timer of its own (a coalescing delay, a tick) is not parked anywhere the
			// controller can see - let a little simulated time pass once, so that it can fire and be scheduled.
			graced = true
			select {
			case <-s.wake: // (a token left by the last park, everything is durably blocked right now)
			default:
			}
			tm := time.NewTimer(quiesceGrace)
			select {
			case <-s.wake:
				tm.Stop()
			case <-tm.C:
			}
			continue
		}
		if len(elig) == 0 {
			elig = idleElig
		}
		if len(elig) == 0 {
			// Nothing runnable: let simulated time pass.
			d := quantum
			if nextDeadline > 0 {
				d = nextDeadline - now
				if d <= 0 {
					d = 1
				}
			} else {
				if quantum < time.Minute {
					quantum *= 2
				}
			}
			if idle >= cfg.StuckAfter {
				out.Kind, out.Detail = "stuck", s.describeTasks()
				break
			}
			tm := time.NewTimer(d)
			select {
			case <-s.wake:
				tm.Stop()
			case <-tm.C:
				if nextDeadline == 0 {
					idle += d
				}
			}
			continue
		}
		idle, quantum = 0, time.Millisecond
		if len(elig) > 0 && !elig[0].idleOnly {
			graced = false
		}
		if cfg.CoRelease {
			// a tape-chosen non-empty subset runs concurrently this round
			var set []*Task
			for _, t := range elig {
				if s.Tapes.Choose("sch", 2) == 0 {
					set = append(set, t)
				}
			}
			if len(set) == 0 {
				set = append(set, elig[s.Tapes.Choose("sch", len(elig))])
			}
			for _, t := range set {
				t.budget = inf
				t.sbudget = [...]int64{inf, 0, 1, 3, 8}[s.Tapes.Choose("sch", 5)]
			}
			s.Steps++
			if len(set) > 1 {
				s.Switches += int64(len(set))
			}
			for _, t := range set {
				s.logAs(t.ID, "corun", t.parkedAt)
				s.mu.Lock()
				for i, p := range s.parked {
					if p == t {
						s.parked = append(s.parked[:i], s.parked[i+1:]...)
						break
					}
				}
				s.mu.Unlock()
				t.running.Store(true)
			}
			for _, t := range set {
				t.resume <- struct{}{}
			}
			continue
		}
		s.release(s.pick(elig))
	}
	out.Steps, out.Switches, out.Stmts = s.Steps, s.Switches, s.Stmts.Load()
	out.SimTime = s.Now()
	out.Fingerprint, out.Interleave = s.hash, s.ilHash
	out.Tasks = len(s.tasks)
	if cfg.CoRelease {
		for _, t := range s.tasks {
			for k, v := range t.probes {
				if strings.HasPrefix(k, "fault:") {
					s.Faults[k[6:]] += v
				} else {
					s.Probes[k] += v
				}
			}
		}
	}
	s.stopping.Store(true)
	return s, out
}

// quiesceGrace is the simulated time allowed to pass before a task waiting for quiescence is told so.
const quiesceGrace = 5 * time.Millisecond

// HandOff is called by a task that has just released a lock other tasks are waiting for. In a
// quarter of the cases (tape "hof") the releasing task is parked at its next point and a waiter for a
// lock runs until it blocks: code that goes on using what the lock protected after releasing it
// (unlock-then-act) meets its successor at once instead of once in ten thousand schedules.
func HandOff() {
	s := active.Load()
	if s == nil || s.cfg.CoRelease || s.cfg.Policy == FIFO {
		return
	}
	t := s.taskOfG()
	if t == nil || s.Choose("hof", 4) != 1 {
		return
	}
	s.handoff = true
	t.budget, t.sbudget = 0, 0
}

func (s *Sim) pick(elig []*Task) *Task {
	if s.handoff {
		s.handoff = false
		for _, c := range elig {
			if c != s.lastTask && (strings.HasPrefix(c.parkedAt, "Lock ") || strings.HasPrefix(c.parkedAt, "RLock ")) {
				c.budget, c.sbudget = inf, inf
				s.Probes["scheduler: lock handed to a waiter, releasing task parked"]++
				return c
			}
		}
	}
	// Put the task that ran last first, so that choice 0 means "keep going".
	if s.lastTask != nil {
		for i, t := range elig {
			if t == s.lastTask {
				copy(elig[1:i+1], elig[:i])
				elig[0] = t
				break
			}
		}
	}
	var t *Task
	switch s.cfg.Policy {
	case PCT:
		for len(s.pctPoints) > 0 && s.Stmts.Load() >= s.pctPoints[0] {
			if s.lastTask != nil {
				s.lastTask.prio = len(s.pctPoints) // below every initial priority
			}
			s.pctPoints = s.pctPoints[1:]
		}
		t = elig[0]
		for _, c := range elig[1:] {
			if c.prio > t.prio {
				t = c
			}
		}
		t.budget, t.sbudget = inf, inf
		if len(s.pctPoints) > 0 {
			t.budget = s.pctPoints[0] - s.Stmts.Load()
			if t.budget < 1 {
				t.budget = 1
			}
		}
	case FIFO:
		t = elig[0]
		if t != s.lastTask {
			for _, c := range elig[1:] {
				if c.readySeq < t.readySeq {
					t = c
				}
			}
		}
		t.budget, t.sbudget = inf, inf
	case Fine:
		t = elig[s.Tapes.ChooseBias("sch", len(elig), 1, 2)]
		t.budget = [...]int64{inf, 1, 2, 3, 5, 10, 30, 100, 300}[s.Choose("sch", 9)]
		t.sbudget = inf
	default:
		t = elig[s.Tapes.ChooseBias("sch", len(elig), 1, 2)]
		t.budget = inf
		t.sbudget = [...]int64{inf, 0, 1, 2, 4}[s.Choose("sch", 5)]
	}
	return t
}

func (s *Sim) release(t *Task) {
	s.Steps++
	if t != s.lastTask {
		s.Switches++
	}
	s.lastTask = t
	s.logAs(t.ID, "run", t.parkedAt)
	s.mu.Lock()
	for i, p := range s.parked {
		if p == t {
			s.parked = append(s.parked[:i], s.parked[i+1:]...)
			break
		}
	}
	s.mu.Unlock()
	s.cur.Store(t)
	t.resume <- struct{}{}
}

func (s *Sim) describeTasks() string {
	var b strings.Builder
	s.mu.Lock()
	parked := map[*Task]bool{}
	for _, t := range s.parked {
		parked[t] = true
	}
	tasks := append([]*Task(nil), s.tasks...)
	s.mu.Unlock()
	for _, t := range tasks {
		if t.done {
			continue
		}
		st := "blocked-external(last point " + t.parkedAt + ")"
		if parked[t] {
			st = "parked at " + t.parkedAt
			if t.cond != nil {
				st += " waiting for " + t.condDesc
			}
		}
		held := ""
		if len(t.Holding) > 0 {
			var hs []string
			for k, n := range t.Holding {
				if n > 0 {
					hs = append(hs, k)
				}
			}
			sort.Strings(hs)
			if len(hs) > 0 {
				held = " holding " + strings.Join(hs, ",")
			}
		}
		fmt.Fprintf(&b, "task %s [%s]: %s%s\n", t.Name, t.Site, st, held)
	}
	return b.String()
}

// Describe returns the wait-for description of all live tasks.
func (s *Sim) Describe() string { return s.describeTasks() }

// LiveTasks returns the spawn sites of tasks that have not finished.
func (s *Sim) LiveTasks() []string {
	s.mu.Lock()
	defer s.mu.Unlock()
	var out []string
	for _, t := range s.tasks {
		if !t.done {
			out = append(out, t.Site)
		}
	}
	return out
}

// Cond helpers for locks -----------------------------------------------------

// ParkCond parks the current task with a condition (used by simsync).
func ParkCond(site, desc string, cond func() bool) {
	s := active.Load()
	t := s.taskOfG()
	t.cond, t.condDesc = cond, desc
	s.park(t, site)
	t.cond, t.condDesc = nil, ""
}

// CallerSite returns "file.go:line" of the caller skip frames up.
func CallerSite(skip int) string {
	_, file, line, ok := runtime.Caller(skip)
	if !ok {
		return "?"
	}
	if i := strings.LastIndexByte(file, '/'); i >= 0 {
		file = file[i+1:]
	}
	return file + ":" + strconv.Itoa(line)
}

// NextID hands out small deterministic identifiers (locks, streams) per run.
func (s *Sim) NextID() int {
	if s.cfg.CoRelease {
		if t := s.taskOfG(); t != nil {
			t.idSeq++
			return t.ID*1000 + t.idSeq
		}
	}
	s.idSeq++
	return s.idSeq
}
