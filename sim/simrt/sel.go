package simrt

import (
	"fmt"
	"reflect"
	"sort"
)

// SelCase is one communication clause of a rewritten select statement.
type SelCase struct {
	c reflect.SelectCase
}

func SelRecv[T any](ch <-chan T) SelCase {
	return SelCase{reflect.SelectCase{Dir: reflect.SelectRecv, Chan: reflect.ValueOf(ch)}}
}

func SelSend[T any](ch chan<- T, v T) SelCase {
	return SelCase{reflect.SelectCase{Dir: reflect.SelectSend, Chan: reflect.ValueOf(ch), Send: reflect.ValueOf(&v).Elem()}}
}

// SelVal converts the received value back to the channel's element type.
func SelVal[T any](_ <-chan T, v reflect.Value) T {
	if !v.IsValid() {
		var z T
		return z
	}
	x := v.Interface()
	if x == nil {
		// a nil value of an interface element type (`errCh <- nil`): the assertion below would panic
		var z T
		return z
	}
	return x.(T)
}

// Select implements a select statement with two or more communication clauses.
// Ready cases are polled in an order taken from the "sel" tape, so the runtime's
// random choice among several ready cases is never exercised. It returns the
// index of the chosen case, or -1 for the default clause.
func Select(site string, hasDefault bool, cases ...SelCase) (int, reflect.Value, bool) {
	s := active.Load()
	var t *Task
	if s != nil {
		t = s.taskOfG()
	}
	rc := make([]reflect.SelectCase, len(cases), len(cases)+1)
	for i, c := range cases {
		rc[i] = c.c
	}
	if t == nil {
		if hasDefault {
			rc = append(rc, reflect.SelectCase{Dir: reflect.SelectDefault})
		}
		i, v, ok := reflect.Select(rc)
		if i == len(cases) {
			return -1, v, ok
		}
		return i, v, ok
	}
	Sync("select " + site)
	order := make([]int, len(cases))
	for i := range order {
		order[i] = i
	}
	// selection-style permutation: all-zero tape = source order.
	for i := 0; i < len(order)-1; i++ {
		j := i + s.Choose("sel", len(order)-i)
		order[i], order[j] = order[j], order[i]
	}
	for _, i := range order {
		c, v, ok := reflect.Select([]reflect.SelectCase{rc[i], {Dir: reflect.SelectDefault}})
		if c == 0 {
			return i, v, ok
		}
	}
	if hasDefault {
		return -1, reflect.Value{}, false
	}
	i, v, ok := reflect.Select(rc)
	// woken by another task's operation: we do not hold the baton.
	s.park(t, "select-woke "+site)
	return i, v, ok
}

// MapKeys returns the keys of m in the order a rewritten `for range m` visits
// them: canonical (sorted) order permuted by the "map" tape; native order outside
// a run.
func MapKeys[M ~map[K]V, K comparable, V any](site string, m M) []K {
	keys := make([]K, 0, len(m))
	for k := range m {
		keys = append(keys, k)
	}
	s := active.Load()
	if s == nil || s.taskOfG() == nil || len(keys) < 2 {
		return keys
	}
	sortKeys(keys)
	n := len(keys)
	switch s.Choose("map", 4) {
	case 0:
	case 1:
		for i, j := 0, n-1; i < j; i, j = i+1, j-1 {
			keys[i], keys[j] = keys[j], keys[i]
		}
	case 2:
		r := s.Choose("map", n)
		rot := append(append([]K(nil), keys[r:]...), keys[:r]...)
		copy(keys, rot)
	case 3:
		for i := 0; i < n-1; i++ {
			j := i + s.Choose("map", n-i)
			keys[i], keys[j] = keys[j], keys[i]
		}
	}
	return keys
}

func sortKeys[K comparable](keys []K) {
	type kk struct {
		kind int
		u    uint64
		i    int64
		s    string
	}
	ks := make([]kk, len(keys))
	for i, k := range keys {
		v := reflect.ValueOf(any(k))
		switch v.Kind() {
		case reflect.Uint, reflect.Uint8, reflect.Uint16, reflect.Uint32, reflect.Uint64, reflect.Uintptr:
			ks[i] = kk{kind: 1, u: v.Uint()}
		case reflect.Int, reflect.Int8, reflect.Int16, reflect.Int32, reflect.Int64:
			ks[i] = kk{kind: 2, i: v.Int()}
		case reflect.String:
			ks[i] = kk{kind: 3, s: v.String()}
		case reflect.Bool:
			if v.Bool() {
				ks[i] = kk{kind: 0, u: 1}
			}
		default:
			ks[i] = kk{kind: 4, s: fmt.Sprintf("%T|%v", k, k)}
		}
	}
	idx := make([]int, len(keys))
	for i := range idx {
		idx[i] = i
	}
	sort.SliceStable(idx, func(a, b int) bool {
		x, y := ks[idx[a]], ks[idx[b]]
		if x.kind != y.kind {
			return x.kind < y.kind
		}
		if x.u != y.u {
			return x.u < y.u
		}
		if x.i != y.i {
			return x.i < y.i
		}
		return x.s < y.s
	})
	out := make([]K, len(keys))
	for i, j := range idx {
		out[i] = keys[j]
	}
	copy(keys, out)
}
