package simrt

import (
	"hash/fnv"
	"math/rand/v2"
	"sort"
)

// Tapes are the only source of choice inside a run. In generation mode every
// Choose draws from a per-tape PRNG derived from the run seed and records the
// value; in replay mode it reads the recorded value and yields 0 (the benign
// default) beyond the end of the tape. 0 is always the benign choice: no fault,
// keep running the current task, sorted order, first ready case.
type Tapes struct {
	Seed   uint64
	Replay bool
	T      map[string]*Tape
}

type Tape struct {
	Vals []uint32
	pos  int
	rng  *rand.Rand
}

func NewTapes(seed uint64) *Tapes {
	return &Tapes{Seed: seed, T: map[string]*Tape{}}
}

// ReplayTapes returns tapes that replay the recorded values.
func ReplayTapes(seed uint64, rec map[string][]uint32) *Tapes {
	t := &Tapes{Seed: seed, Replay: true, T: map[string]*Tape{}}
	for k, v := range rec {
		t.T[k] = &Tape{Vals: append([]uint32(nil), v...)}
	}
	return t
}

func (t *Tapes) tape(name string) *Tape {
	tp := t.T[name]
	if tp == nil {
		tp = &Tape{}
		t.T[name] = tp
	}
	if tp.rng == nil && !t.Replay {
		h := fnv.New64a()
		h.Write([]byte(name))
		tp.rng = rand.New(rand.NewPCG(t.Seed, h.Sum64()))
	}
	return tp
}

// Choose returns a value in [0,n). n<=1 returns 0 without consuming the tape.
func (t *Tapes) Choose(name string, n int) int {
	if n <= 1 {
		return 0
	}
	tp := t.tape(name)
	if t.Replay {
		if tp.pos >= len(tp.Vals) {
			tp.pos++
			return 0
		}
		v := int(tp.Vals[tp.pos])
		tp.pos++
		if v >= n {
			return 0
		}
		return v
	}
	v := tp.rng.IntN(n)
	tp.Vals = append(tp.Vals, uint32(v))
	tp.pos++
	return v
}

// ChooseBias returns 0 with probability num/den, else a uniform value in [1,n).
func (t *Tapes) ChooseBias(name string, n int, num, den int) int {
	if n <= 1 {
		return 0
	}
	tp := t.tape(name)
	if t.Replay {
		return t.Choose(name, n)
	}
	v := 0
	if tp.rng.IntN(den) >= num {
		v = 1 + tp.rng.IntN(n-1)
	}
	tp.Vals = append(tp.Vals, uint32(v))
	tp.pos++
	return v
}

// Record returns a copy of everything consumed so far (generation mode) or the
// replayed prefix (replay mode), for the replay file.
func (t *Tapes) Record() map[string][]uint32 {
	out := map[string][]uint32{}
	for k, tp := range t.T {
		n := len(tp.Vals)
		if t.Replay && tp.pos < n {
			n = tp.pos
		}
		// trim trailing zeros: they are the default anyway.
		for n > 0 && tp.Vals[n-1] == 0 {
			n--
		}
		if n > 0 {
			out[k] = append([]uint32(nil), tp.Vals[:n]...)
		}
	}
	return out
}

func (t *Tapes) Names() []string {
	var ns []string
	for k := range t.T {
		ns = append(ns, k)
	}
	sort.Strings(ns)
	return ns
}
