// Package simsync provides drop-in replacements for the sync types used by the
// instrumented packages. Outside a simulation they delegate to the real sync
// types; inside, a blocked task parks with a condition the controller can see,
// so no goroutine ever blocks inside a real mutex (which synctest would not
// treat as durable) and deadlocks are detected with their wait-for graph.
//
// Go's sync.RWMutex gives a pending writer preference over new readers; that is
// modelled, because real deadlocks in gribigo need it.
package simsync

import (
	"fmt"
	"sync"
	"sync/atomic"

	"verifsim/simrt"
)

type (
	Map    = sync.Map
	Pool   = sync.Pool
	Locker = sync.Locker
)

// OnceFunc etc. are not used by the code under test; add when needed.

type RWMutex struct {
	real sync.RWMutex
	// simulated state (only touched by the task holding the baton)
	writer   *simrt.Task
	readers  map[*simrt.Task]int
	pendingW int
	pendingR int // readers parked behind a writer (scheduling hint only)
	id       int
}

func (m *RWMutex) name() string {
	if m.id == 0 {
		m.id = simrt.Active().NextID()
	}
	return fmt.Sprintf("rw#%d", m.id)
}

func caller() string { return simrt.CallerSite(3) }

func (m *RWMutex) Lock() {
	t := simrt.Current()
	if t == nil {
		m.lockNoTask()
		return
	}
	site := caller()
	simrt.Sync("Lock " + site)
	if simrt.CoRelease() {
		// race-detector mode: the real mutex provides exclusion and the detector's
		// happens-before edges; a task never blocks inside it.
		for !m.real.TryLock() {
			simrt.ParkCond("Lock "+site, "write lock", func() bool {
				if m.real.TryLock() {
					m.real.Unlock()
					return true
				}
				return false
			})
		}
		return
	}
	if m.writer != nil || len(m.readers) > 0 {
		m.pendingW++
		simrt.ParkCond("Lock "+site, "write lock "+m.name()+m.holders(), func() bool {
			return m.writer == nil && len(m.readers) == 0
		})
		m.pendingW--
	}
	m.writer = t
	t.Holding[m.name()+"(w)"]++
	simrt.Active().NoteAcquire(t, "W "+site)
}

func (m *RWMutex) holders() string {
	s := " held by"
	if m.writer != nil {
		s += " writer " + m.writer.Name
	}
	for r := range m.readers {
		s += " reader " + r.Name
	}
	return s
}

func (m *RWMutex) lockNoTask() {
	if simrt.Active() != nil {
		if m.writer != nil || len(m.readers) > 0 {
			panic("simsync: non-task goroutine would block on a simulated lock")
		}
	}
	m.real.Lock()
}

func (m *RWMutex) TryLock() bool {
	t := simrt.Current()
	if t == nil {
		return m.real.TryLock()
	}
	simrt.Sync("TryLock " + caller())
	if simrt.CoRelease() {
		return m.real.TryLock()
	}
	if m.writer != nil || len(m.readers) > 0 {
		return false
	}
	m.writer = t
	t.Holding[m.name()+"(w)"]++
	return true
}

func (m *RWMutex) Unlock() {
	t := simrt.Current()
	if t == nil {
		m.real.Unlock()
		return
	}
	if simrt.CoRelease() {
		m.real.Unlock()
		simrt.Sync("Unlock " + caller())
		return
	}
	simrt.Sync("Unlock " + caller())
	if m.writer == nil {
		panic("sync: Unlock of unlocked RWMutex")
	}
	m.writer.Holding[m.name()+"(w)"]--
	m.writer = nil
	if m.pendingW > 0 || m.pendingR > 0 {
		simrt.HandOff()
	}
}

func (m *RWMutex) RLock() {
	t := simrt.Current()
	if t == nil {
		if simrt.Active() != nil && m.writer != nil {
			panic("simsync: non-task goroutine would block on a simulated lock")
		}
		m.real.RLock()
		return
	}
	site := caller()
	simrt.Sync("RLock " + site)
	if simrt.CoRelease() {
		for !m.real.TryRLock() {
			simrt.ParkCond("RLock "+site, "read lock", func() bool {
				if m.real.TryRLock() {
					m.real.RUnlock()
					return true
				}
				return false
			})
		}
		return
	}
	if m.writer != nil || m.pendingW > 0 {
		m.pendingR++
		simrt.ParkCond("RLock "+site, "read lock "+m.name()+m.holders(), func() bool {
			return m.writer == nil && m.pendingW == 0
		})
		m.pendingR--
	}
	if m.readers == nil {
		m.readers = map[*simrt.Task]int{}
	}
	m.readers[t]++
	t.Holding[m.name()+"(r)"]++
	simrt.Active().NoteAcquire(t, "R "+site)
}

func (m *RWMutex) TryRLock() bool {
	t := simrt.Current()
	if t == nil {
		return m.real.TryRLock()
	}
	simrt.Sync("TryRLock " + caller())
	if simrt.CoRelease() {
		return m.real.TryRLock()
	}
	if m.writer != nil || m.pendingW > 0 {
		return false
	}
	if m.readers == nil {
		m.readers = map[*simrt.Task]int{}
	}
	m.readers[t]++
	t.Holding[m.name()+"(r)"]++
	return true
}

func (m *RWMutex) RUnlock() {
	t := simrt.Current()
	if t == nil {
		m.real.RUnlock()
		return
	}
	if simrt.CoRelease() {
		m.real.RUnlock()
		simrt.Sync("RUnlock " + caller())
		return
	}
	simrt.Sync("RUnlock " + caller())
	// An RUnlock may legally be issued by a different goroutine than the
	// RLock; prefer the caller's own entry.
	owner := t
	if m.readers[owner] == 0 {
		owner = nil
		for r := range m.readers {
			if owner == nil || r.ID < owner.ID {
				owner = r
			}
		}
		if owner == nil {
			panic("sync: RUnlock of unlocked RWMutex")
		}
	}
	m.readers[owner]--
	if m.readers[owner] == 0 {
		delete(m.readers, owner)
	}
	owner.Holding[m.name()+"(r)"]--
}

func (m *RWMutex) RLocker() sync.Locker { return (*rlocker)(m) }

type rlocker RWMutex

func (r *rlocker) Lock()   { (*RWMutex)(r).RLock() }
func (r *rlocker) Unlock() { (*RWMutex)(r).RUnlock() }

// Mutex ----------------------------------------------------------------------

type Mutex struct {
	rw RWMutex
}

func (m *Mutex) Lock()         { m.rw.Lock() }
func (m *Mutex) Unlock()       { m.rw.Unlock() }
func (m *Mutex) TryLock() bool { return m.rw.TryLock() }

// WaitGroup ------------------------------------------------------------------

type WaitGroup struct {
	real sync.WaitGroup
	n    int
	an   atomic.Int64 // co-release mode
}

func (w *WaitGroup) Add(d int) {
	if simrt.Current() == nil {
		w.real.Add(d)
		return
	}
	simrt.Sync("wg.Add " + caller())
	if simrt.CoRelease() {
		if w.an.Add(int64(d)) < 0 {
			panic("sync: negative WaitGroup counter")
		}
		return
	}
	w.n += d
	if w.n < 0 {
		panic("sync: negative WaitGroup counter")
	}
}

func (w *WaitGroup) Done() { w.Add(-1) }

func (w *WaitGroup) Go(f func()) {
	w.Add(1)
	simrt.Go("wg.Go "+caller(), func() {
		defer w.Done()
		f()
	})
}

func (w *WaitGroup) Wait() {
	if simrt.Current() == nil {
		w.real.Wait()
		return
	}
	site := caller()
	simrt.Sync("wg.Wait " + site)
	if simrt.CoRelease() {
		for w.an.Load() > 0 {
			simrt.ParkCond("wg.Wait "+site, "waitgroup", func() bool { return w.an.Load() == 0 })
		}
		return
	}
	if w.n > 0 {
		simrt.ParkCond("wg.Wait "+site, "waitgroup", func() bool { return w.n == 0 })
	}
}

// Once -----------------------------------------------------------------------

type Once struct {
	mu   Mutex
	done bool
}

func (o *Once) Do(f func()) {
	o.mu.Lock()
	defer o.mu.Unlock()
	if !o.done {
		defer func() { o.done = true }()
		f()
	}
}

// Cond -----------------------------------------------------------------------

type Cond struct {
	L       sync.Locker
	real    *sync.Cond
	waiters []*int
}

func NewCond(l sync.Locker) *Cond { return &Cond{L: l, real: sync.NewCond(l)} }

func (c *Cond) Wait() {
	if simrt.Current() == nil {
		c.real.Wait()
		return
	}
	flag := new(int)
	c.waiters = append(c.waiters, flag)
	c.L.Unlock()
	simrt.ParkCond("cond.Wait "+caller(), "cond", func() bool { return *flag == 1 })
	c.L.Lock()
}

func (c *Cond) Signal() {
	if simrt.Current() == nil {
		c.real.Signal()
		return
	}
	simrt.Sync("cond.Signal " + caller())
	if len(c.waiters) > 0 {
		*c.waiters[0] = 1
		c.waiters = c.waiters[1:]
	}
}

func (c *Cond) Broadcast() {
	if simrt.Current() == nil {
		c.real.Broadcast()
		return
	}
	simrt.Sync("cond.Broadcast " + caller())
	for _, w := range c.waiters {
		*w = 1
	}
	c.waiters = nil
}
