package harness

// Family "race" (C11, data-race clause): the concurrent workload of "conc" run
// in co-release mode in a binary built with -race. Each round the controller
// releases a tape-chosen SET of parked tasks, which then really run in parallel
// until their next synchronisation point; two segments of the same round are
// concurrent unless the program's own locks and channels order them, and the
// race detector flags any conflicting unsynchronised pair. The workload tasks
// keep only private state, and the transport orders nothing but a message's
// send before its receipt, so every report whose accesses lie in
// server/rib/client code is a race of the code under test.

import (
	"context"
	"fmt"
	"math/rand/v2"
	"os"
	"regexp"
	"sort"
	"strings"
	"time"

	aftpb "github.com/openconfig/gribi/v1/proto/gribi_aft"
	spb "github.com/openconfig/gribi/v1/proto/service"

	"verifsim/simnet"
	"verifsim/simrt"
)

func init() {
	families["race"] = &family{gen: genRace, run: runRace}
}

func genRace(seed uint64, prop string) *Scenario {
	sc := genConc(seed, prop)
	sc.Family = "race"
	sc.Cfg.Policy = "corelease"
	r := rand.New(rand.NewPCG(seed, 0x72616365))
	// always some readers and flushers: the interesting pairs are across RPC kinds
	g := newGen(seed, 0x72616366, &sc.Cfg)
	// most batches use the general generator over a small SHARED key space (both instances, explicit
	// and cross-instance group references, REPLACE and DELETE of referenced entries): there is no
	// oracle here, and the pairs worth racing are the ones that touch the same tables
	for i := range sc.Steps {
		st := &sc.Steps[i]
		if st.T != "s-ops" || r.IntN(3) == 0 {
			continue
		}
		st.Ops = nil
		for k := 0; k < 3+r.IntN(8); k++ {
			st.Ops = append(st.Ops, opJSON(g.randomOp()))
		}
	}
	gs := &GetSpec{All: true, AFT: int32(spb.AFTType_ALL)}
	sc.Steps = append(sc.Steps, Step{T: "reader", Sess: 110, Get: gs, A: 2 + r.IntN(3)})
	fs := &FlushSpec{All: r.IntN(2) == 0, NI: g.ni()}
	switch r.IntN(3) {
	case 0:
		fs.Override = true
	case 1:
		id := [2]uint64{0, uint64(3 + r.IntN(12))}
		fs.ID = &id
	}
	if fs.All {
		fs.NI = ""
	}
	sc.Steps = append(sc.Steps, Step{T: "flusher", Sess: 210, Flush: fs, A: r.IntN(30)})
	// and one that keeps flushing a single instance with override while the sessions program it
	sc.Steps = append(sc.Steps, Step{T: "flusher", Sess: 211, Flush: &FlushSpec{Override: true, NI: g.ni()}, A: r.IntN(12), B: 2 + r.IntN(5)})
	return sc
}

// runRace: like runConc without oracles (workload tasks touch only private state).
func runRace(e *env) {
	e.setup()
	type plan struct {
		steps []*Step
		mc    *simnet.ModifyClient
	}
	plans := map[int]*plan{}
	var order []int
	var readers, flushers, adders []*Step
	for i := range e.sc.Steps {
		st := &e.sc.Steps[i]
		switch st.T {
		case "s-join", "s-elect", "s-ops", "s-leave":
			p := plans[st.Sess]
			if p == nil {
				p = &plan{}
				plans[st.Sess] = p
				order = append(order, st.Sess)
			}
			p.steps = append(p.steps, st)
		case "reader":
			readers = append(readers, st)
		case "flusher":
			flushers = append(flushers, st)
		case "ni-adder":
			adders = append(adders, st)
		}
	}
	sort.Ints(order)
	fib := e.sc.Cfg.FIBAck
	c := 6
	if fib {
		c = 7
	}
	// the first session negotiates before the run goes concurrent; the others connect and negotiate
	// from their own tasks in half of the runs (session table and parameter checks race with everything else)
	lateAll := e.sc.Seed%2 == 0
	for i, sn := range order {
		p := plans[sn]
		if i > 0 && (lateAll || (len(p.steps) > 0 && p.steps[0].T == "s-join")) {
			continue
		}
		p.mc = e.net.OpenModify()
		p.mc.Send(&spb.ModifyRequest{Params: comboParams(c)})
		p.mc.RecvTimeout(time.Minute)
	}
	var done [64]bool
	n := 0
	for _, sn := range order {
		p := plans[sn]
		slot := n
		n++
		simrt.Go("race-session", func() {
			defer func() { done[slot] = true }()
			var elec [2]uint64
			owed := 0
			if p.mc == nil {
				p.mc = e.net.OpenModify()
				p.mc.Send(&spb.ModifyRequest{Params: comboParams(c)})
				if _, err := p.mc.RecvTimeout(time.Minute); err != nil {
					return // rejected: another session was connected but had not negotiated yet
				}
			}
			for _, st := range p.steps {
				switch st.T {
				case "s-join":
					continue
				case "s-elect":
					elec = *st.Elec
					p.mc.Send(&spb.ModifyRequest{ElectionId: uint128(elec)})
					owed++
				case "s-ops":
					ops := st.ops()
					if len(ops) == 0 {
						continue
					}
					for _, op := range ops {
						op.ElectionId = uint128(elec)
					}
					p.mc.Send(&spb.ModifyRequest{Operation: ops})
					owed += len(ops)
				case "s-leave":
					if st.A == 0 {
						p.mc.CloseSend()
					} else {
						p.mc.Stream().Cancel()
					}
					return
				}
				for {
					if _, _, ok := p.mc.TryRecv(); !ok {
						break
					}
				}
			}
			for i := 0; i < owed; i++ {
				if _, err := p.mc.RecvTimeout(20 * time.Second); err != nil {
					break
				}
			}
			p.mc.CloseSend()
		})
	}
	for _, st := range readers {
		st := st
		slot := n
		n++
		simrt.Go("race-reader", func() {
			defer func() { done[slot] = true }()
			for i := 0; i < st.A; i++ {
				req := &spb.GetRequest{Aft: spb.AFTType(st.Get.AFT)}
				if st.Get.All {
					req.NetworkInstance = &spb.GetRequest_All{All: &spb.Empty{}}
				} else {
					req.NetworkInstance = &spb.GetRequest_Name{Name: st.Get.NI}
				}
				gc := e.net.OpenGet(req)
				for {
					if _, err := gc.RecvTimeout(time.Minute); err != nil {
						break
					}
				}
			}
		})
	}
	for _, st := range flushers {
		st := st
		slot := n
		n++
		simrt.Go("race-flusher", func() {
			defer func() { done[slot] = true }()
			for i := 0; i <= st.B; i++ {
				simrt.Yield("flusher-delay", st.A)
				ctx, cancel := context.WithTimeout(context.Background(), time.Minute)
				e.net.Flush(ctx, flushReq(st.Flush))
				cancel()
			}
		})
	}
	for _, st := range adders {
		st := st
		slot := n
		n++
		simrt.Go("race-ni-adder", func() {
			defer func() { done[slot] = true }()
			for i := 0; i < st.B; i++ {
				simrt.Yield("adder-delay", st.A)
				e.srv.AddNetworkInstance(fmt.Sprintf("LATE-%d", i))
			}
		})
	}
	total := n
	simrt.WaitUntil("race-join", "all clients finished", time.Hour, func() bool {
		for i := 0; i < total; i++ {
			if !done[i] {
				return false
			}
		}
		return true
	})
	simrt.AwaitQuiescence("race-end")
}

var _ = aftpb.Afts{}

// ---------------------------------------------------------------------------
// race detector reports

type raceReport struct {
	Sig    string
	Text   string
	InSUT  bool
	Frames [2]string
}

var reFrame = regexp.MustCompile(`^  ([^\s].*)\(\)$`)

// parseRaceLog splits the detector's log into reports and classifies them.
func parseRaceLog(text string) []raceReport {
	var out []raceReport
	for _, blk := range strings.Split(text, "==================") {
		if !strings.Contains(blk, "WARNING: DATA RACE") {
			continue
		}
		lines := strings.Split(blk, "\n")
		var tops []string
		for i := 0; i < len(lines) && len(tops) < 2; i++ {
			l := lines[i]
			if !(strings.Contains(l, " by goroutine ") && (strings.HasPrefix(l, "Write at") || strings.HasPrefix(l, "Read at") || strings.HasPrefix(l, "Previous write at") || strings.HasPrefix(l, "Previous read at") || strings.HasPrefix(l, "Atomic") || strings.HasPrefix(l, "Previous atomic"))) {
				continue
			}
			top := "?"
			for j := i + 1; j < len(lines); j++ {
				if strings.TrimSpace(lines[j]) == "" {
					break
				}
				m := reFrame.FindStringSubmatch(lines[j])
				if m == nil {
					continue
				}
				fn := m[1]
				if strings.HasPrefix(fn, "runtime.") || strings.HasPrefix(fn, "internal/") || strings.HasPrefix(fn, "sync.") || strings.HasPrefix(fn, "sync/") {
					continue
				}
				if top == "?" {
					top = fn
				}
				// The access is attributed to the innermost frame of the code under test or of the harness: a library
				// (ygot, protobuf, reflect) that two tasks enter without synchronisation is the caller's race.
				if strings.HasPrefix(fn, "github.com/openconfig/gribigo/") || strings.HasPrefix(fn, "verifsim/") {
					top = fn
					break
				}
			}
			tops = append(tops, top)
		}
		for len(tops) < 2 {
			tops = append(tops, "?")
		}
		r := raceReport{Text: strings.TrimSpace(blk), Frames: [2]string{tops[0], tops[1]}}
		sut := func(f string) bool { return strings.HasPrefix(f, "github.com/openconfig/gribigo/") }
		r.InSUT = sut(tops[0]) && sut(tops[1])
		fs := []string{strip(tops[0]), strip(tops[1])}
		sort.Strings(fs)
		r.Sig = fs[0] + " <-> " + fs[1]
		out = append(out, r)
	}
	return out
}

func strip(f string) string {
	f = strings.TrimPrefix(f, "github.com/openconfig/gribigo/")
	if i := strings.Index(f, ".func"); i > 0 {
		f = f[:i] // closures: name of the enclosing function
	}
	return f
}

// raceLogFiles returns the detector's log files for this process.
func raceLogSize(prefix string) (string, int64) {
	path := fmt.Sprintf("%s.%d", prefix, os.Getpid())
	fi, err := os.Stat(path)
	if err != nil {
		return path, 0
	}
	return path, fi.Size()
}
