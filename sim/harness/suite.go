package harness

// Family "suite" (C19): the compliance suite itself is the workload. Its tests
// run as simulated client tasks (fluent client -> real client library -> simnet)
// against ONE long-lived reference server per run, in a seeded order, with a
// seeded starting election id and network-instance names (oracle A: everything
// passes). In "suitefault" runs the reference server is wrapped so that it
// breaks exactly one protocol requirement, and at least one of the tests
// written for that requirement must fail (oracle B).

import (
	"context"
	"fmt"
	"math/rand/v2"
	"runtime"
	"sort"
	"strings"
	"testing"
	"time"

	spb "github.com/openconfig/gribi/v1/proto/service"
	"github.com/openconfig/gribigo/compliance"
	"github.com/openconfig/gribigo/fluent"
	"github.com/openconfig/gribigo/server"

	"verifsim/simnet"
	"verifsim/simrt"
)

func init() {
	families["suite"] = &family{gen: genSuite, run: runSuite}
	families["suitefault"] = &family{gen: genSuiteFault, run: runSuite}
}

// the benchmark programs 1110 next-hops: slow under simulation, so it only takes part in one run out of eight
const benchmarkTest = "Benchmark Get for next-hops"

func suiteIndex() []int {
	var idx []int
	for i, t := range compliance.TestSuite {
		if t.In.ShortName == benchmarkTest {
			continue
		}
		idx = append(idx, i)
	}
	return idx
}

var elecBases = []uint64{1, 2, 1000, 1 << 32, 1 << 62}

func genSuite(seed uint64, prop string) *Scenario {
	r := rand.New(rand.NewPCG(seed, 0x7375697465))
	cfg := ScenCfg{Default: []string{"DEFAULT", "DEFAULT", "default-ni"}[r.IntN(3)], VRFs: []string{[]string{"NON-DEFAULT-VRF", "VRF-X"}[r.IntN(2)]}, FwdRefs: true, Policy: "fifo"}
	sc := &Scenario{Family: "suite", Seed: seed, Cfg: cfg}
	idx := suiteIndex()
	switch r.IntN(4) {
	case 0: // reverse registry order
		sort.Sort(sort.Reverse(sort.IntSlice(idx)))
	default:
		r.Shuffle(len(idx), func(i, j int) { idx[i], idx[j] = idx[j], idx[i] })
	}
	n := 6 + r.IntN(18) // a permuted slice of the suite per run keeps runs short; all pairs get covered over many runs
	if r.IntN(12) == 0 {
		n = len(idx)
	}
	if n > len(idx) {
		n = len(idx)
	}
	pick := append([]int(nil), idx[:n]...)
	if r.IntN(8) == 0 {
		// the (slow) benchmark test takes part in the order as well, now and then
		for i, t := range compliance.TestSuite {
			if t.In.ShortName == benchmarkTest {
				at := r.IntN(len(pick) + 1)
				pick = append(pick[:at], append([]int{i}, pick[at:]...)...)
			}
		}
	}
	sc.Steps = append(sc.Steps, Step{T: "base", A: r.IntN(len(elecBases))})
	for _, i := range pick {
		sc.Steps = append(sc.Steps, Step{T: "test", A: i, Note: compliance.TestSuite[i].In.ShortName})
	}
	return sc
}

// ---------------------------------------------------------------------------

type capTB struct {
	testing.TB
	failed  bool
	skipped bool
	msgs    []string
	cleanup []func()
}

func (c *capTB) fail(kind string, args ...any) {
	c.failed = true
	c.msgs = append(c.msgs, kind+": "+strings.TrimSpace(fmt.Sprintln(args...)))
}
func (c *capTB) Helper()                   {}
func (c *capTB) Name() string              { return "simulated-compliance" }
func (c *capTB) Log(args ...any)           {}
func (c *capTB) Logf(f string, a ...any)   {}
func (c *capTB) Error(args ...any)         { c.fail("error", args...) }
func (c *capTB) Errorf(f string, a ...any) { c.fail("error", fmt.Sprintf(f, a...)) }
func (c *capTB) Fail()                     { c.fail("fail") }
func (c *capTB) Failed() bool              { return c.failed }
func (c *capTB) FailNow()                  { c.fail("failnow"); runtime.Goexit() }
func (c *capTB) Fatal(args ...any)         { c.fail("fatal", args...); runtime.Goexit() }
func (c *capTB) Fatalf(f string, a ...any) { c.fail("fatal", fmt.Sprintf(f, a...)); runtime.Goexit() }
func (c *capTB) Skip(args ...any)          { c.skipped = true; runtime.Goexit() }
func (c *capTB) Skipf(f string, a ...any)  { c.skipped = true; runtime.Goexit() }
func (c *capTB) SkipNow()                  { c.skipped = true; runtime.Goexit() }
func (c *capTB) Skipped() bool             { return c.skipped }
func (c *capTB) Cleanup(f func())          { c.cleanup = append(c.cleanup, f) }
func (c *capTB) Context() context.Context  { return context.Background() }
func (c *capTB) TempDir() string           { return "/tmp" }
func (c *capTB) Setenv(k, v string)        {}

var realTB testing.TB // set by the worker: supplies testing.TB's unexported method

type suiteRun struct {
	e       *env
	nets    map[bool]*simnet.Net // by "forward references disallowed"
	srvs    map[bool]*server.Server
	fault   string
	results map[string]bool // short name -> passed
	msgs    map[string][]string
	fired   map[string]bool // short name -> the injected server fault manifested during the test
	// state of the faulty-server wrappers
	firstParams   *spb.SessionParameters
	modifyStreams []*faultyModify
	// maxSeen: per server, the highest election id any client has sent so far (in the order the messages
	// reached the server's streams - what the server's own maximum will be once it has worked through them;
	// a server may read ahead of what it has processed, so its present state is not the thing to ask)
	maxSeen map[*server.Server]*spb.Uint128
}

func (sr *suiteRun) netFor(noFwd bool) *simnet.Net {
	if n := sr.nets[noFwd]; n != nil {
		return n
	}
	vrfs := append([]string(nil), sr.e.sc.Cfg.VRFs...)
	if d := sr.e.sc.Cfg.Default; d != "" && d != server.DefaultNetworkInstanceName {
		// The server package fixes the name of its own default instance; the instance the SUITE is told to
		// treat as the default one (cmd/ccli -default_ni_name) is then another instance of the same server.
		vrfs = append(vrfs, d)
	}
	opts := []server.ServerOpt{server.WithVRFs(vrfs)}
	if noFwd || !sr.e.sc.Cfg.FwdRefs {
		opts = append(opts, server.WithNoRIBForwardReferences())
	}
	s, err := server.New(opts...)
	if err != nil {
		panic(err)
	}
	n := &simnet.Net{Srv: s}
	if sr.fault != "" {
		installFault(sr, n, s, sr.fault)
	}
	sr.nets[noFwd], sr.srvs[noFwd] = n, s
	return n
}

func runSuite(e *env) {
	sr := &suiteRun{e: e, nets: map[bool]*simnet.Net{}, srvs: map[bool]*server.Server{}, results: map[string]bool{}, msgs: map[string][]string{}, fired: map[string]bool{}}
	compliance.SetDefaultNetworkInstanceName(server.DefaultNetworkInstanceName)
	if d := e.sc.Cfg.Default; d != "" {
		compliance.SetDefaultNetworkInstanceName(d)
	}
	compliance.SetNonDefaultVRFName(e.sc.Cfg.VRFs[0])
	compliance.SetElectionID(1)
	for i := range e.sc.Steps {
		st := &e.sc.Steps[i]
		e.step = i
		switch st.T {
		case "base":
			compliance.SetElectionID(elecBases[st.A%len(elecBases)])
		case "srvfault":
			sr.fault = st.Note
		case "test":
			if st.A < 0 || st.A >= len(compliance.TestSuite) {
				continue
			}
			sr.runTest(compliance.TestSuite[st.A])
		}
	}
	e.step = len(e.sc.Steps)
	if sr.fault == "" {
		return
	}
	// oracle B: at least one test designated for the broken requirement failed
	des := designated(sr.fault)
	ran, failed := 0, 0
	var names []string
	for name, pass := range sr.results {
		if des(name) && sr.fired[name] {
			ran++
			names = append(names, name)
			if !pass {
				failed++
			}
		}
	}
	sort.Strings(names)
	if ran == 0 {
		e.probe("fault " + sr.fault + ": did not manifest in a designated test")
		return
	}
	if failed == 0 {
		e.report("C19", "violation-not-flagged", "faulty server ("+sr.fault+") passed every test written for that requirement", fmt.Sprintf("designated tests that ran and passed: %v", names), false)
	} else if failed < ran && !lenientFaults[sr.fault] {
		var passed []string
		for _, n := range names {
			if sr.results[n] {
				passed = append(passed, n)
			}
		}
		e.report("C19", "violation-not-flagged", "faulty server ("+sr.fault+") passed a test written for exactly the requirement it breaks", fmt.Sprintf("designated tests in which the fault manifested and which passed: %v", passed), false)
	}
	e.probe("fault " + sr.fault + ": flagged")
}

func (sr *suiteRun) runTest(tt *compliance.TestSpec) {
	e := sr.e
	n := sr.netFor(tt.In.RequiresDisallowedForwardReferences)
	tb := &capTB{TB: realTB}
	c := fluent.NewClient()
	c.Connection().WithStub(n)
	sc := fluent.NewClient()
	sc.Connection().WithStub(n)
	sr.firstParams, sr.modifyStreams = nil, nil // wrapper state is per test (every session of the previous test is gone)
	firedBefore := e.sim.Faults["srv-fault:"+sr.fault]
	done := false
	simrt.Go("compliance-test", func() {
		defer func() { done = true }()
		defer func() {
			// what cmd/ccli and TestCompliance do after each test
			c.Stop(tb)
			sc.Stop(tb)
			for i := len(tb.cleanup) - 1; i >= 0; i-- {
				tb.cleanup[i]()
			}
		}()
		tt.In.Fn(c, tb, compliance.SecondClient(sc))
	})
	if !simrt.WaitUntil("test-join", "compliance test finishes", 30*time.Minute, func() bool { return done }) {
		e.report("C19", "test-hung", tt.In.ShortName, e.sim.Describe(), false)
	}
	simrt.AwaitQuiescence("after-test")
	sr.fired[tt.In.ShortName] = e.sim.Faults["srv-fault:"+sr.fault] > firedBefore
	sr.results[tt.In.ShortName] = !tb.failed
	sr.msgs[tt.In.ShortName] = tb.msgs
	if tb.failed {
		e.probe("compliance test failed")
		if sr.fault == "" {
			// oracle A: the conformant server passes every test in every order
			prev := "first test of the run"
			if e.step > 0 {
				for j := e.step - 1; j >= 0; j-- {
					if e.sc.Steps[j].T == "test" {
						prev = "after: " + e.sc.Steps[j].Note
						break
					}
				}
			}
			e.report("C19", "conformant-server-fails", tt.In.ShortName, fmt.Sprintf("%s; %v", prev, tb.msgs), false)
		}
	} else {
		e.probe("compliance test passed")
	}
}

var _ = spb.AFTType_ALL
