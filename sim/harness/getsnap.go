package harness

// Family "getsnap" (C07; also a C11 workload): a Get is in progress - its reader
// stalled behind a flow-control window of one message - while the primary
// deletes and re-adds entries of the same network instance. Whatever the
// interleaving, the entries a Get returns for one network instance must be the
// installed entries of that instance at SOME instant between the start and the
// end of the Get (the server holds the instance's read lock for the whole Get):
// a mixture that never existed is a violation.

import (
	"fmt"
	"math/rand/v2"
	"time"

	aftpb "github.com/openconfig/gribi/v1/proto/gribi_aft"
	spb "github.com/openconfig/gribi/v1/proto/service"
	"google.golang.org/protobuf/proto"

	"verifsim/simnet"
	"verifsim/simrt"
)

func init() {
	families["getsnap"] = &family{gen: genGetSnap, run: runGetSnap}
}

func genGetSnap(seed uint64, prop string) *Scenario {
	r := rand.New(rand.NewPCG(seed, 0x67657473))
	cfg := ScenCfg{Default: "DEFAULT", VRFs: []string{"VRF-A"}, FwdRefs: true}
	cfg.Policy = []string{"coarse", "fine", "pct"}[r.IntN(3)]
	cfg.PCTDepth = 1 + r.IntN(3)
	cfg.Window = 1 + r.IntN(2)
	cfg.FullPayl = true
	sc := &Scenario{Family: "getsnap", Seed: seed, Cfg: cfg}
	g := newGen(seed, 0x67657474, &sc.Cfg)
	ni := g.ni()
	// a few complete chains in the instance that will be read
	nchains := 1 + r.IntN(3)
	type chain struct {
		nh, grp uint64
		top     *spb.AFTOperation
	}
	var chains []chain
	var prep []*spb.AFTOperation
	for c := 0; c < nchains; c++ {
		nh, grp := uint64(1+c), uint64(1+c)
		top := g.entry(spb.AFTOperation_ADD, []Kind{KV4, KV6, KMPLS}[g.pick(3)], ni)
		switch t := top.Entry.(type) {
		case *spb.AFTOperation_Ipv4:
			t.Ipv4.Prefix = v4Prefixes[c]
			t.Ipv4.Ipv4Entry.NextHopGroup, t.Ipv4.Ipv4Entry.NextHopGroupNetworkInstance = u(grp), nil
		case *spb.AFTOperation_Ipv6:
			t.Ipv6.Prefix = v6Prefixes[c]
			t.Ipv6.Ipv6Entry.NextHopGroup, t.Ipv6.Ipv6Entry.NextHopGroupNetworkInstance = u(grp), nil
		case *spb.AFTOperation_Mpls:
			t.Mpls.Label = &aftpb.Afts_LabelEntryKey_LabelUint64{LabelUint64: labels[c]}
			t.Mpls.LabelEntry.NextHopGroup, t.Mpls.LabelEntry.NextHopGroupNetworkInstance = u(grp), nil
		}
		chains = append(chains, chain{nh, grp, top})
		prep = append(prep,
			&spb.AFTOperation{Id: g.id(), NetworkInstance: ni, Op: spb.AFTOperation_ADD, Entry: &spb.AFTOperation_NextHop{NextHop: g.nhPayload(nh)}},
			&spb.AFTOperation{Id: g.id(), NetworkInstance: ni, Op: spb.AFTOperation_ADD, Entry: &spb.AFTOperation_NextHopGroup{NextHopGroup: &aftpb.Afts_NextHopGroupKey{Id: grp, NextHopGroup: &aftpb.Afts_NextHopGroup{NextHop: []*aftpb.Afts_NextHopGroup_NextHopKey{{Index: nh, NextHop: &aftpb.Afts_NextHopGroup_NextHop{Weight: u(g.mark())}}}}}}},
			top)
	}
	// a quarter of the runs read a LARGE table (a Get that pages through its tables, or re-walks them, meets a
	// modification in the middle): 34-73 unreferenced next-hops besides the chains
	big := r.IntN(4) == 0
	if big {
		n := 34 + r.IntN(40)
		for i := 0; i < n; i++ {
			prep = append(prep, &spb.AFTOperation{Id: g.id(), NetworkInstance: ni, Op: spb.AFTOperation_ADD, Entry: &spb.AFTOperation_NextHop{NextHop: &aftpb.Afts_NextHopKey{
				Index: uint64(100 + i), NextHop: &aftpb.Afts_NextHop{IpAddress: sv(fmt.Sprintf("198.18.7.%d", i))}}}})
		}
	}
	sc.Steps = append(sc.Steps, g.batchStep(0, prep))
	gs := &GetSpec{AFT: int32([]int{1, 1, 1, 2, 3, 4, 5, 6}[r.IntN(8)])}
	if big {
		gs.AFT = int32([]int{1, 6}[r.IntN(2)])
	}
	if r.IntN(3) == 0 {
		gs.All = true
	} else {
		gs.NI = ni
	}
	sc.Steps = append(sc.Steps, Step{T: "snapget", Get: gs, A: r.IntN(8), B: r.IntN(3)})
	if big {
		// while the reader stalls: a key that sorts before most of the table goes away, another one appears
		var ws []*spb.AFTOperation
		if r.IntN(3) != 0 {
			ws = append(ws, &spb.AFTOperation{Id: g.id(), NetworkInstance: ni, Op: spb.AFTOperation_DELETE, Entry: &spb.AFTOperation_NextHop{NextHop: &aftpb.Afts_NextHopKey{Index: uint64(100 + r.IntN(3))}}})
		}
		if r.IntN(3) != 0 {
			ws = append(ws, &spb.AFTOperation{Id: g.id(), NetworkInstance: ni, Op: spb.AFTOperation_ADD, Entry: &spb.AFTOperation_NextHop{NextHop: &aftpb.Afts_NextHopKey{
				Index: uint64(50 + r.IntN(3)), NextHop: &aftpb.Afts_NextHop{IpAddress: sv("198.18.8.1")}}}})
		}
		for _, o := range ws {
			st := g.batchStep(0, []*spb.AFTOperation{o})
			st.T = "w-ops"
			sc.Steps = append(sc.Steps, st)
		}
	}
	// the writer takes chains apart top-down (every operation is answered at once) and may put them back
	for _, c := range chains {
		if r.IntN(4) == 0 {
			continue
		}
		d := func(e *spb.AFTOperation) *spb.AFTOperation {
			x := &spb.AFTOperation{Id: g.id(), NetworkInstance: ni, Op: spb.AFTOperation_DELETE}
			switch t := e.Entry.(type) {
			case *spb.AFTOperation_Ipv4:
				x.Entry = &spb.AFTOperation_Ipv4{Ipv4: &aftpb.Afts_Ipv4EntryKey{Prefix: t.Ipv4.Prefix}}
			case *spb.AFTOperation_Ipv6:
				x.Entry = &spb.AFTOperation_Ipv6{Ipv6: &aftpb.Afts_Ipv6EntryKey{Prefix: t.Ipv6.Prefix}}
			case *spb.AFTOperation_Mpls:
				x.Entry = &spb.AFTOperation_Mpls{Mpls: &aftpb.Afts_LabelEntryKey{Label: t.Mpls.Label}}
			}
			return x
		}
		ops := []*spb.AFTOperation{d(c.top),
			{Id: g.id(), NetworkInstance: ni, Op: spb.AFTOperation_DELETE, Entry: &spb.AFTOperation_NextHopGroup{NextHopGroup: &aftpb.Afts_NextHopGroupKey{Id: c.grp}}},
			{Id: g.id(), NetworkInstance: ni, Op: spb.AFTOperation_DELETE, Entry: &spb.AFTOperation_NextHop{NextHop: &aftpb.Afts_NextHopKey{Index: c.nh}}}}
		ops = ops[:1+r.IntN(3)]
		if r.IntN(2) == 0 {
			// one request per operation
			for _, o := range ops {
				st := g.batchStep(0, []*spb.AFTOperation{o})
				st.T = "w-ops"
				sc.Steps = append(sc.Steps, st)
			}
		} else {
			st := g.batchStep(0, ops)
			st.T = "w-ops"
			sc.Steps = append(sc.Steps, st)
		}
	}
	if r.IntN(2) == 0 {
		st := g.batchStep(0, []*spb.AFTOperation{{Id: g.id(), NetworkInstance: ni, Op: spb.AFTOperation_ADD, Entry: &spb.AFTOperation_NextHop{NextHop: g.nhPayload(4)}}})
		st.T = "w-ops"
		sc.Steps = append(sc.Steps, st)
	}
	return sc
}

func runGetSnap(e *env) {
	e.setup()
	cur := e.openSession([2]uint64{0, 1}, false)
	// states: every state the model goes through from the moment the Get starts, one per folded result (however
	// the server groups results into responses); winEnd: the last of them that stems from operations sent while
	// the Get was still running.
	var states []Snapshot
	record := func() { states = append(states, modelSnapshot(e.model, "", -1)) }
	winEnd := 0
	defer func() { e.onResult = nil }()
	var gc *simnet.GetClient
	var spec *GetSpec
	var got []*spb.GetResponse
	started, finished := false, false
	endIdx := -1
	sentOps := 0 // operations the writer has sent: state S_k is the state after k acknowledged operations
	var readerErr error
	for i := range e.sc.Steps {
		st := &e.sc.Steps[i]
		e.step = i
		switch st.T {
		case "modify":
			e.modify(cur, st)
		case "snapget":
			if gc != nil {
				continue
			}
			spec = st.Get
			record() // S0: the state when the Get starts
			req := &spb.GetRequest{Aft: spb.AFTType(spec.AFT)}
			if spec.All {
				req.NetworkInstance = &spb.GetRequest_All{All: &spb.Empty{}}
			} else {
				req.NetworkInstance = &spb.GetRequest_Name{Name: spec.NI}
			}
			gc = e.net.OpenGet(req)
			first, stall := st.B, st.A
			simrt.Go("snap-reader", func() {
				defer func() { finished = true; endIdx = sentOps }()
				for n := 0; n < first; n++ {
					r, err := gc.RecvTimeout(time.Minute)
					if err != nil {
						if err.Error() != "EOF" {
							readerErr = err
						}
						started = true
						return
					}
					got = append(got, r)
				}
				started = true
				simrt.Yield("snap-stall", stall) // the reader stalls; the producer runs into flow control
				for {
					r, err := gc.RecvTimeout(10 * time.Minute)
					if err != nil {
						if err.Error() != "EOF" {
							readerErr = err
						}
						return
					}
					got = append(got, r)
				}
			})
			simrt.WaitUntil("snap-started", "reader has its first responses", time.Minute, func() bool { return started })
		case "w-ops":
			if gc == nil {
				continue
			}
			ops := st.ops()
			if len(ops) == 0 {
				continue
			}
			for _, op := range ops {
				op.ElectionId = uint128(cur.elec)
				e.opSeq++
				rec := &opRec{op: op, sess: cur.idx, seq: e.opSeq}
				cur.sent[op.GetId()] = rec
				e.allOps[op.GetId()] = rec
			}
			sentOps += len(ops) // the server may process them (and the Get may see the result) before the acks arrive
			inWindow := !finished
			e.onResult = record
			cur.mc.Send(&spb.ModifyRequest{Operation: ops})
			// the writer may have to wait for the Get to release the instance lock
			// (however the server groups results into responses: read until nothing is owed any more -
			// an operation the model expects to be held is owed nothing yet)
			for {
				owed := 0
				for _, op := range ops {
					if rec := cur.sent[op.GetId()]; rec.state == opSent {
						if v, _, _ := e.model.Expect(op); v != VHold {
							owed++
						}
					}
				}
				if owed == 0 {
					break
				}
				r, err := cur.mc.RecvTimeout(20 * time.Minute)
				if err != nil {
					e.report("C11", "unanswered", "writer got no answer while a Get was in progress", fmt.Sprintf("%v\n%s", err, e.sim.Describe()), false)
					break
				}
				e.processResults(cur, []*spb.ModifyResponse{r})
			}
			e.onResult = nil
			if inWindow {
				winEnd = len(states) - 1
			}
			if !finished {
				e.probe("getsnap: write acknowledged while the Get was still in progress")
			} else {
				e.probe("getsnap: write acknowledged after the Get had finished")
			}
		}
	}
	if gc == nil {
		return
	}
	if !simrt.WaitUntil("snap-join", "Get finishes", 30*time.Minute, func() bool { return finished }) {
		e.report("C11", "unanswered", "a Get never finished", e.sim.Describe(), false)
	}
	simrt.AwaitQuiescence("snap-end")
	if readerErr != nil {
		e.report("C07", "get-error", "Get of a valid scope failed", readerErr.Error(), false)
	}
	snap, dup, err := snapFromGet(got)
	if err != nil || len(dup) > 0 {
		e.report("C07", "get-bad-entry", "bad or duplicate entry", fmt.Sprint(err, dup), false)
	}
	// What the properties promise for a Get that overlaps modifications is per entry, not a snapshot of the
	// instance (the tree happens to hold the instance's read lock for the whole Get; its own comments consider
	// per-entry locking): every returned entry is one that was installed, with that payload, at some instant
	// while the Get ran; a key that was installed unchanged throughout is returned; a key that never was is not.
	kind := kindOfAFT(spb.AFTType(spec.AFT))
	if winEnd >= len(states) {
		winEnd = len(states) - 1
	}
	inScope := func(k Key) bool {
		return (spec.All || k.NI == spec.NI) && (kind < 0 || int(k.Kind) == kind)
	}
	keys := map[Key]bool{}
	for i := 0; i <= winEnd; i++ {
		for k := range states[i] {
			if inScope(k) {
				keys[k] = true
			}
		}
	}
	for k := range snap {
		keys[k] = true
	}
	var all []Key
	for k := range keys {
		all = append(all, k)
	}
	sortKeys(all)
	for _, k := range all {
		gotV, gotOK := snap[k]
		ok := false
		for i := 0; i <= winEnd && !ok; i++ {
			v, has := states[i][k]
			if !inScope(k) {
				has = false
			}
			ok = has == gotOK && (!has || proto.Equal(normalize(v), normalize(gotV)))
		}
		if !ok {
			what := "returned with a payload it never had while the Get ran"
			if !gotOK {
				what = "missing although installed unchanged for as long as the Get ran"
			} else if !inScope(k) {
				what = "returned although outside the requested scope"
			}
			e.checkpoint(func() {
				e.report("C07", "get-entry-never-so", "Get overlapping modifications: an entry was "+what, fmt.Sprintf("%s; the model went through %d states while the Get ran", k, winEnd+1), false)
				e.report("C11", "get-entry-never-so", "Get concurrent with modifications: an entry was "+what, k.String(), false)
			})
			break
		}
	}
	_ = endIdx
	e.checkpoint(func() { e.afterQuiescenceChecks(nil) })
	if spec != nil {
		// the same Get again, now that nothing changes any more: exactly what is installed
		e.checkGetAgainstImpl([]string{"C07", "C11"}, spec.NI, spec.All, spb.AFTType(spec.AFT), "repeated at quiescence after a Get that overlapped modifications")
	}
}
