package harness

// Unit tests of the reference model itself (run by setup_cmd): the oracles are
// only as good as the model, so its rules are pinned against hand-worked cases
// from the property statements and the gRIBI specification.

import (
	"testing"

	aftpb "github.com/openconfig/gribi/v1/proto/gribi_aft"
	spb "github.com/openconfig/gribi/v1/proto/service"
)

func TestModel128(t *testing.T) {
	max := ^uint64(0)
	cases := []struct {
		a, b [2]uint64
		less bool
	}{
		{[2]uint64{1, 5}, [2]uint64{2, 1}, true}, // high word decides
		{[2]uint64{2, 1}, [2]uint64{1, 5}, false},
		{[2]uint64{0, max}, [2]uint64{1, 0}, true},
		{[2]uint64{1, 0}, [2]uint64{0, max}, false},
		{[2]uint64{7, 7}, [2]uint64{7, 7}, false},
		{[2]uint64{7, 6}, [2]uint64{7, 7}, true},
		{[2]uint64{1 << 63, 0}, [2]uint64{0, 1 << 63}, false},
	}
	for _, c := range cases {
		if got := less128(c.a, c.b); got != c.less {
			t.Errorf("less128(%v,%v)=%v want %v", c.a, c.b, got, c.less)
		}
	}
	if add128([2]uint64{0, max}, 1) != [2]uint64{1, 0} || sub128([2]uint64{1, 0}, 1) != [2]uint64{0, max} {
		t.Errorf("128-bit carry/borrow wrong")
	}
}

func nhOp(id uint64, ni string, op spb.AFTOperation_Operation, idx uint64) *spb.AFTOperation {
	return &spb.AFTOperation{Id: id, NetworkInstance: ni, Op: op, Entry: &spb.AFTOperation_NextHop{NextHop: &aftpb.Afts_NextHopKey{Index: idx, NextHop: &aftpb.Afts_NextHop{IpAddress: sv("10.0.0.1")}}}}
}

func nhgOp(id uint64, ni string, op spb.AFTOperation_Operation, gid uint64, nhs ...uint64) *spb.AFTOperation {
	g := &aftpb.Afts_NextHopGroup{}
	for _, n := range nhs {
		g.NextHop = append(g.NextHop, &aftpb.Afts_NextHopGroup_NextHopKey{Index: n, NextHop: &aftpb.Afts_NextHopGroup_NextHop{Weight: u(1)}})
	}
	return &spb.AFTOperation{Id: id, NetworkInstance: ni, Op: op, Entry: &spb.AFTOperation_NextHopGroup{NextHopGroup: &aftpb.Afts_NextHopGroupKey{Id: gid, NextHopGroup: g}}}
}

func v4Op(id uint64, ni string, op spb.AFTOperation_Operation, pfx string, nhg uint64, nhgNI string) *spb.AFTOperation {
	e := &aftpb.Afts_Ipv4Entry{NextHopGroup: u(nhg)}
	if nhgNI != "" {
		e.NextHopGroupNetworkInstance = sv(nhgNI)
	}
	return &spb.AFTOperation{Id: id, NetworkInstance: ni, Op: op, Entry: &spb.AFTOperation_Ipv4{Ipv4: &aftpb.Afts_Ipv4EntryKey{Prefix: pfx, Ipv4Entry: e}}}
}

func TestModelVerdicts(t *testing.T) {
	m := NewModel("DEFAULT", []string{"VRF-A"}, true)
	step := func(op *spb.AFTOperation, want Verdict) {
		t.Helper()
		v, en, why := m.Expect(op)
		if v != want {
			t.Fatalf("%s: verdict %s (%s), want %s", describeOp(op), v, why, want)
		}
		if v == VProgram {
			m.Apply(op, en)
		}
	}
	add, rep, del := spb.AFTOperation_ADD, spb.AFTOperation_REPLACE, spb.AFTOperation_DELETE
	step(v4Op(1, "VRF-A", add, "10.0.0.0/8", 1, "DEFAULT"), VHold)    // group missing
	step(nhgOp(2, "DEFAULT", add, 1, 1), VHold)                       // next-hop missing
	step(nhOp(3, "DEFAULT", add, 1), VProgram)                        // next-hops always resolve
	step(nhgOp(2, "DEFAULT", add, 1, 1), VProgram)                    // now resolvable
	step(v4Op(1, "VRF-A", add, "10.0.0.0/8", 1, "DEFAULT"), VProgram) // cross-instance reference
	step(nhgOp(4, "DEFAULT", del, 1), VFail)                          // referenced from VRF-A
	step(nhOp(5, "DEFAULT", del, 1), VFail)                           // referenced by the group
	step(nhOp(6, "DEFAULT", del, 9), VProgram)                        // missing key: idempotent delete
	step(v4Op(7, "VRF-A", rep, "192.0.2.0/24", 1, "DEFAULT"), VFail)  // explicit replace of a missing entry
	step(v4Op(8, "VRF-A", rep, "10.0.0.0/8", 1, ""), VHold)           // group resolves in the entry's own instance when unset
	step(v4Op(9, "VRF-A", del, "10.0.0.0/8", 0, ""), VProgram)
	step(nhgOp(4, "DEFAULT", del, 1), VProgram)
	step(nhOp(5, "DEFAULT", del, 1), VProgram)
	if len(m.Tab) != 0 {
		t.Fatalf("model not empty: %v", m.Keys())
	}
	// invalid content must fail, whatever the state
	for _, op := range []*spb.AFTOperation{
		nhOp(20, "", add, 1), nhOp(21, "NOPE", add, 1), nhOp(22, "DEFAULT", add, 0),
		nhgOp(23, "DEFAULT", add, 0, 1), nhgOp(24, "DEFAULT", add, 1), nhgOp(25, "DEFAULT", add, 1, 0),
		v4Op(26, "DEFAULT", add, "300.0.0.0/8", 1, ""), v4Op(27, "DEFAULT", add, "10.0.0.0/8", 0, ""), v4Op(28, "DEFAULT", add, "10.0.0.0/8", 1, "NOPE"),
		{Id: 29, NetworkInstance: "DEFAULT", Op: add},
		{Id: 30, NetworkInstance: "DEFAULT", Op: 7, Entry: nhOp(0, "", add, 1).Entry},
	} {
		if v, _, why := m.Expect(op); v != VFail {
			t.Errorf("%v: verdict %s (%s), want fail", op, v, why)
		}
	}
	// forward references disallowed: unresolved means fail, not hold
	m2 := NewModel("DEFAULT", nil, false)
	if v, _, _ := m2.Expect(nhgOp(1, "DEFAULT", add, 1, 1)); v != VFail {
		t.Errorf("no-forward-reference mode: got %s", v)
	}
	// unusual payloads are unspecified, not valid
	odd := nhOp(40, "DEFAULT", add, 1)
	odd.GetNextHop().NextHop.IpAddress = sv("999.1.1.1")
	if v, _, _ := m.Expect(odd); v != VEither {
		t.Errorf("odd address: got %s", v)
	}
}

func TestModelFlushTable(t *testing.T) {
	e := &env{model: NewModel("DEFAULT", []string{"VRF-A"}, true), maxElec: [2]uint64{2, 1}}
	id := func(h, l uint64) *[2]uint64 { return &[2]uint64{h, l} }
	cases := []struct {
		fs     FlushSpec
		learnt bool
		ok     bool
	}{
		{FlushSpec{All: true, Override: true}, true, true},
		{FlushSpec{NI: "VRF-A", ID: id(2, 1)}, true, true},  // equal id
		{FlushSpec{NI: "VRF-A", ID: id(3, 0)}, true, true},  // higher in the high word only
		{FlushSpec{NI: "VRF-A", ID: id(1, 9)}, true, false}, // lower high word, larger low word
		{FlushSpec{NI: "VRF-A", ID: id(0, 0)}, true, false},
		{FlushSpec{NI: "VRF-A"}, true, false},                // no election field in SINGLE_PRIMARY
		{FlushSpec{NI: "VRF-A"}, false, true},                // nothing learnt, nothing given
		{FlushSpec{NI: "VRF-A", ID: id(0, 5)}, false, false}, // id although nothing learnt
		{FlushSpec{Override: true}, true, false},             // no network instance
		{FlushSpec{NI: "NOPE", Override: true}, true, false},
	}
	for i, c := range cases {
		if x := e.expectFlush(&c.fs, c.learnt); x.ok != c.ok {
			t.Errorf("case %d %+v: ok=%v want %v (%v)", i, c.fs, x.ok, c.ok, x.why)
		}
	}
}
