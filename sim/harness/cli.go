package harness

// Families "cli" (C13) and "clifault"/"clifaultenum" (C14): the real
// client.Client (instrumented) talks through UseStub to a scripted server task
// that is adversarial within the protocol (delays, reorders across ids, batches
// results, interleaves election/params responses; per id RIB before FIB), or
// violates it (unknown id, duplicate terminal result), or fails the stream at a
// chosen message index on the send or receive side.

import (
	"context"
	"errors"
	"fmt"
	"io"
	"math/rand/v2"
	"sort"
	"strings"
	"time"

	aftpb "github.com/openconfig/gribi/v1/proto/gribi_aft"
	spb "github.com/openconfig/gribi/v1/proto/service"
	"github.com/openconfig/gribigo/client"
	"github.com/openconfig/gribigo/constants"
	"google.golang.org/grpc"
	"google.golang.org/grpc/codes"
	"google.golang.org/grpc/metadata"
	"google.golang.org/grpc/status"
	"google.golang.org/protobuf/proto"

	"verifsim/simrt"
)

func init() {
	families["cli"] = &family{gen: genCli, run: runCli}
	families["clifault"] = &family{gen: genCliFault, run: runCli}
	families["clifaultenum"] = &family{gen: genCliFaultEnum, run: runCli}
}

// ---------------------------------------------------------------------------
// scripted server

type pendingResult struct {
	res   *spb.AFTResult
	after *pendingResult // must be emitted after this one (RIB before FIB)
	sent  bool
	viol  bool // the protocol-violating result
}

type stubStream struct {
	srv      *stubServer
	id       int
	reqs     []*spb.ModifyRequest // sent by the client, not yet consumed by the server task
	resps    []*spb.ModifyResponse
	closed   bool  // client half-closed
	ended    bool  // server finished (EOF after resps drained)
	endErr   error // terminal status
	nSend    int
	nRecv    int
	sendFail map[int]error // Send call index -> error
	recvFail map[int]error // after this many delivered responses Recv fails
	ctx      context.Context
}

type stubServer struct {
	e        *env
	fib      bool
	mode     int // 0 compliant, 1 unknown id, 2 duplicate terminal result
	maxBatch int
	streams  []*stubStream
	// accounting by the server itself: which ids got which terminal verdict
	terminal     map[uint64]spb.AFTResult_Status
	ribSent      map[uint64]bool
	violated     bool
	violation    string
	maxElec      [2]uint64
	nextSendFail map[int]error
	nextRecvFail map[int]error
	opsSeen      map[uint64]*spb.AFTOperation
	// response sequence numbers (over all streams): of the violating result, and of the latest
	// terminal result of a genuine operation; -1 = not emitted yet
	nEmit, violIdx, lastTermIdx int
}

func (s *stubServer) Modify(ctx context.Context, opts ...grpc.CallOption) (grpc.BidiStreamingClient[spb.ModifyRequest, spb.ModifyResponse], error) {
	simrt.Sync("stub.Modify")
	st := &stubStream{srv: s, id: len(s.streams), ctx: ctx, sendFail: s.nextSendFail, recvFail: s.nextRecvFail}
	s.nextSendFail, s.nextRecvFail = nil, nil
	s.streams = append(s.streams, st)
	simrt.Go("stub-server", func() { s.serve(st) })
	return st, nil
}

func (s *stubServer) Get(ctx context.Context, in *spb.GetRequest, opts ...grpc.CallOption) (grpc.ServerStreamingClient[spb.GetResponse], error) {
	return nil, status.Error(codes.Unimplemented, "stub")
}

func (s *stubServer) Flush(ctx context.Context, in *spb.FlushRequest, opts ...grpc.CallOption) (*spb.FlushResponse, error) {
	return nil, status.Error(codes.Unimplemented, "stub")
}

func (st *stubStream) Header() (metadata.MD, error) { return nil, nil }
func (st *stubStream) Trailer() metadata.MD         { return nil }
func (st *stubStream) Context() context.Context     { return st.ctx }
func (st *stubStream) SendMsg(m any) error          { return st.Send(m.(*spb.ModifyRequest)) }
func (st *stubStream) RecvMsg(m any) error          { return fmt.Errorf("unused") }

func (st *stubStream) Send(m *spb.ModifyRequest) error {
	simrt.Sync("stub.Send")
	idx := st.nSend
	st.nSend++
	if err, ok := st.sendFail[idx]; ok {
		simrt.Active().Fault("send-error")
		st.ended = true
		if st.endErr == nil {
			st.endErr = err
		}
		return err
	}
	if st.ended || st.closed {
		return io.EOF
	}
	st.reqs = append(st.reqs, proto.Clone(m).(*spb.ModifyRequest))
	return nil
}

func (st *stubStream) CloseSend() error {
	simrt.Sync("stub.CloseSend")
	st.closed = true
	return nil
}

func (st *stubStream) Recv() (*spb.ModifyResponse, error) {
	simrt.Sync("stub.Recv")
	fails := func() (error, bool) {
		err, ok := st.recvFail[st.nRecv]
		return err, ok
	}
	simrt.WaitUntil("stub.Recv", "server response", 0, func() bool {
		_, f := fails()
		return f || len(st.resps) > 0 || st.ended
	})
	if err, f := fails(); f {
		simrt.Active().Fault("recv-error")
		st.ended = true
		delete(st.recvFail, st.nRecv)
		if err == nil {
			return nil, io.EOF
		}
		return nil, err
	}
	if len(st.resps) > 0 {
		r := st.resps[0]
		st.resps = st.resps[1:]
		st.nRecv++
		return r, nil
	}
	if st.endErr != nil {
		return nil, st.endErr
	}
	return nil, io.EOF
}

// serve is the scripted server's task for one stream.
func (s *stubServer) serve(st *stubStream) {
	sim := simrt.Active()
	var pool []*pendingResult
	emit := func(r *spb.ModifyResponse) {
		st.resps = append(st.resps, r)
		s.nEmit++
	}
	// Answers to session parameters and election announcements may be overtaken by operation results (never by
	// one another): a held-back answer waits in ctrl and everything of its kind queues up behind it.
	var ctrl []*spb.ModifyResponse
	emitCtrl := func(r *spb.ModifyResponse) {
		if len(ctrl) > 0 || sim.Choose("flt", 4) == 1 {
			ctrl = append(ctrl, r)
			return
		}
		emit(r)
	}
	releaseCtrl := func() {
		for _, r := range ctrl {
			if s.nEmit > 0 && len(pool) > 0 {
				sim.Probe("client: parameters / election answer overtaken by operation results")
			}
			emit(r)
		}
		ctrl = nil
	}
	flushSome := func(all bool) {
		for {
			var ready []*pendingResult
			for _, p := range pool {
				if !p.sent && (p.after == nil || p.after.sent) {
					ready = append(ready, p)
				}
			}
			if len(ready) == 0 {
				if all {
					releaseCtrl()
				}
				return
			}
			if !all && sim.Choose("flt", 3) == 1 {
				return // hold results back for now
			}
			if len(ctrl) > 0 && sim.Choose("flt", 2) == 1 {
				releaseCtrl()
			}
			n := 1
			if s.maxBatch > 1 {
				n = 1 + sim.Choose("flt", s.maxBatch)
			}
			resp := &spb.ModifyResponse{}
			for i := 0; i < n && len(ready) > 0; i++ {
				k := sim.Choose("flt", len(ready)) // reorder across ids
				if k > 0 {
					sim.Probe("client: results reordered across ids")
				}
				p := ready[k]
				ready = append(ready[:k], ready[k+1:]...)
				p.sent = true
				resp.Result = append(resp.Result, p.res)
				switch {
				case p.viol:
					s.violIdx = s.nEmit
				case terminalFor(s.fib, p.res.GetStatus()):
					s.lastTermIdx = s.nEmit
				}
				// RIB-before-FIB may not be batched in the wrong order: FIB becomes ready only in a later round
			}
			if len(resp.Result) > 1 {
				sim.Probe("client: several results batched in one response")
			}
			emit(resp)
			if d := sim.Choose("net", 4); d > 0 {
				simrt.Sleep("stub-delay", time.Duration(d)*30*time.Millisecond)
			}
		}
	}
	for {
		simrt.WaitUntil("stub.serve", "client request", 0, func() bool { return len(st.reqs) > 0 || st.closed || st.ended })
		if st.ended {
			return
		}
		if len(st.reqs) == 0 {
			// client half-closed: deliver everything that is owed, then end the stream
			flushSome(true)
			st.ended = true
			return
		}
		m := st.reqs[0]
		st.reqs = st.reqs[1:]
		switch {
		case m.Params != nil:
			emitCtrl(&spb.ModifyResponse{SessionParamsResult: &spb.SessionParametersResult{Status: spb.SessionParametersResult_OK}})
		case m.ElectionId != nil:
			// an election response may overtake results that are still held back; it carries the highest id seen
			if id := [2]uint64{m.ElectionId.High, m.ElectionId.Low}; !less128(id, s.maxElec) {
				s.maxElec = id
			}
			emitCtrl(&spb.ModifyResponse{ElectionId: uint128(s.maxElec)})
			if len(pool) > 0 {
				sim.Probe("client: election response interleaved with outstanding results")
			}
		}
		for _, op := range m.Operation {
			s.opsSeen[op.GetId()] = op
			if sim.Choose("flt", 5) == 1 {
				pool = append(pool, &pendingResult{res: &spb.AFTResult{Id: op.GetId(), Status: spb.AFTResult_FAILED}})
				s.terminal[op.GetId()] = spb.AFTResult_FAILED
				continue
			}
			rib := &pendingResult{res: &spb.AFTResult{Id: op.GetId(), Status: spb.AFTResult_RIB_PROGRAMMED}}
			if s.fib {
				fs := spb.AFTResult_FIB_PROGRAMMED
				ribAck := true
				switch sim.Choose("flt", 8) {
				case 1:
					fs = spb.AFTResult_FIB_FAILED
				case 2:
					// the entry reached the RIB but the operation is then reported as failed outright
					fs = spb.AFTResult_FAILED
					sim.Probe("client: FAILED after RIB_PROGRAMMED in FIB-ack mode")
				case 3:
					// the server reports the FIB verdict only (the client dequeues on the FIB acknowledgement)
					ribAck = false
					if sim.Choose("flt", 2) == 1 {
						fs = spb.AFTResult_FIB_FAILED
					}
					sim.Probe("client: FIB verdict without a RIB acknowledgement")
				}
				fr := &pendingResult{res: &spb.AFTResult{Id: op.GetId(), Status: fs}}
				if ribAck {
					pool = append(pool, rib)
					fr.after = rib
				}
				pool = append(pool, fr)
				s.terminal[op.GetId()] = fs
			} else {
				pool = append(pool, rib)
				s.terminal[op.GetId()] = spb.AFTResult_RIB_PROGRAMMED
			}
		}
		if len(m.Operation) > 0 && s.mode != 0 && !s.violated && sim.Choose("flt", 2) == 0 {
			s.violated = true
			switch s.mode {
			case 1:
				stt := []spb.AFTResult_Status{spb.AFTResult_RIB_PROGRAMMED, spb.AFTResult_FAILED, spb.AFTResult_FIB_PROGRAMMED}[sim.Choose("flt", 3)]
				if !s.fib && stt == spb.AFTResult_FIB_PROGRAMMED {
					stt = spb.AFTResult_RIB_PROGRAMMED
				}
				pool = append(pool, &pendingResult{res: &spb.AFTResult{Id: 999999, Status: stt}, viol: true})
				s.violation = "unknown id answered " + stt.String()
				sim.Fault("server-unknown-id")
			case 2:
				// duplicate the terminal result of the first operation of this request
				id := m.Operation[0].GetId()
				var last *pendingResult
				for _, p := range pool {
					if p.res.GetId() == id {
						last = p
					}
				}
				pool = append(pool, &pendingResult{res: proto.Clone(last.res).(*spb.AFTResult), after: last, viol: true})
				s.violation = "duplicate terminal result " + last.res.GetStatus().String()
				sim.Fault("server-duplicate-result")
			}
		}
		flushSome(false)
		if len(st.reqs) == 0 {
			// nothing else to do right now: sooner or later everything owed is delivered
			if sim.Choose("flt", 2) == 0 {
				flushSome(true)
			} else {
				simrt.Sleep("stub-hold", 250*time.Millisecond)
				flushSome(true)
			}
		}
	}
}

// ---------------------------------------------------------------------------
// generators

func cliOps(g *gen, n int) []*spb.AFTOperation {
	var ops []*spb.AFTOperation
	for i := 0; i < n; i++ {
		o := g.randomOp()
		ops = append(ops, o)
	}
	return ops
}

func genCli(seed uint64, prop string) *Scenario {
	r := rand.New(rand.NewPCG(seed, 0x636c69))
	cfg := ScenCfg{Default: "DEFAULT", VRFs: []string{"VRF-A"}, FwdRefs: true}
	cfg.Policy = []string{"fine", "pct", "coarse"}[r.IntN(3)]
	cfg.PCTDepth = 1 + r.IntN(3)
	cfg.FIBAck = r.IntN(2) == 0
	sc := &Scenario{Family: "cli", Seed: seed, Cfg: cfg}
	g := newGen(seed, 0x636c6a, &sc.Cfg)
	mode := 0
	if r.IntN(4) == 0 {
		mode = 1 + r.IntN(2)
	}
	sc.Steps = append(sc.Steps, Step{T: "server", A: mode, B: 1 + r.IntN(4)})
	nreq := 1 + r.IntN(12)
	if r.IntN(6) == 0 {
		nreq = 20 + r.IntN(20)
	}
	started := false
	for i := 0; i < nreq; i++ {
		if !started && r.IntN(3) == 0 {
			sc.Steps = append(sc.Steps, Step{T: "start"})
			started = true
		}
		st := g.batchStep(0, cliOps(g, 1+g.pick(8)))
		st.T = "q"
		sc.Steps = append(sc.Steps, st)
		if r.IntN(8) == 0 {
			// election updates with both words in play, not necessarily increasing (the server answers with the
			// highest id it has seen, which need not be the one just announced)
			id := [2]uint64{uint64(r.IntN(3)), []uint64{1, 2, 5, uint64(2 + i), 1 << 63, ^uint64(0)}[r.IntN(6)]}
			if r.IntN(3) == 0 {
				id[0] = 0
			}
			sc.Steps = append(sc.Steps, Step{T: "q-elect", Elec: &id})
		}
	}
	if !started {
		sc.Steps = append(sc.Steps, Step{T: "start"})
	}
	sc.Steps = append(sc.Steps, Step{T: "await", A: 120})
	if mode == 0 && r.IntN(10) == 0 {
		// the application hands over a request in which two operations share an id: whatever the client makes
		// of it, it must not report convergence while one of them is in none of the three places
		st := g.batchStep(0, cliOps(g, 2+g.pick(3)))
		st.T, st.A = "q-dup", r.IntN(8)
		sc.Steps = append(sc.Steps, st, Step{T: "await-dup", A: 30})
	}
	return sc
}

var faultCodes = []codes.Code{codes.Unavailable, codes.Canceled, codes.Internal, codes.DeadlineExceeded, codes.OK /* io.EOF */}

// Enumerated fault space (quick tier): side (send|recv) x index 0..6 x status class (5) x burst {0,3,6,12} x epilogue {close, reset+reconnect}
const CliFaultSpace = 2 * 7 * 5 * 4 * 2

func cliFaultScenario(seed uint64, family string, side, index, code, burst, epilogue int, r *rand.Rand) *Scenario {
	cfg := ScenCfg{Default: "DEFAULT", VRFs: []string{"VRF-A"}, FwdRefs: true}
	cfg.Policy = []string{"coarse", "fine", "pct", "fine"}[r.IntN(4)]
	cfg.PCTDepth = 1 + r.IntN(3)
	cfg.FIBAck = r.IntN(2) == 0
	sc := &Scenario{Family: family, Seed: seed, Cfg: cfg}
	g := newGen(seed/CliFaultSpace+1, 0x636c6b, &sc.Cfg)
	sc.Steps = append(sc.Steps, Step{T: "server", A: 0, B: 1 + r.IntN(3)})
	sc.Steps = append(sc.Steps, Step{T: "fault", Note: []string{"send", "recv"}[side], A: index, B: code})
	sc.Steps = append(sc.Steps, Step{T: "start"})
	for i := 0; i < 5; i++ {
		st := g.batchStep(0, cliOps(g, 1+g.pick(3)))
		st.T = "q"
		sc.Steps = append(sc.Steps, st)
	}
	if burst > 0 {
		sc.Steps = append(sc.Steps, Step{T: "burst", A: burst})
	}
	sc.Steps = append(sc.Steps, Step{T: "await", A: 30, B: 1})
	if epilogue == 0 {
		sc.Steps = append(sc.Steps, Step{T: "close"})
	} else {
		sc.Steps = append(sc.Steps, Step{T: "reset", A: r.IntN(2)}, Step{T: "reconnect"})
		st := g.batchStep(0, cliOps(g, 2))
		st.T = "q"
		sc.Steps = append(sc.Steps, st, Step{T: "await", A: 60}, Step{T: "close"})
	}
	return sc
}

func genCliFaultEnum(seed uint64, prop string) *Scenario {
	idx := int(seed % CliFaultSpace)
	r := rand.New(rand.NewPCG(seed/CliFaultSpace, 0x636c6c))
	epilogue, idx := idx%2, idx/2
	burst, idx := idx%4, idx/4
	code, idx := idx%5, idx/5
	index, side := idx%7, idx/7
	return cliFaultScenario(seed, "clifaultenum", side, index, code, []int{0, 3, 6, 12}[burst], epilogue, r)
}

func genCliFault(seed uint64, prop string) *Scenario {
	r := rand.New(rand.NewPCG(seed, 0x636c6d))
	if r.IntN(6) == 0 {
		// No fault at all, but the application does not wait: Close or Reset arrives while requests are still
		// buffered or being written to a healthy stream. The sender must finish (half-close), the server ends the
		// RPC, the receiver sees it - and Close / Reset return with nobody left behind.
		cfg := ScenCfg{Default: "DEFAULT", VRFs: []string{"VRF-A"}, FwdRefs: true}
		cfg.Policy = []string{"coarse", "fine", "pct", "fine"}[r.IntN(4)]
		cfg.PCTDepth = 1 + r.IntN(3)
		cfg.FIBAck = r.IntN(2) == 0
		sc := &Scenario{Family: "clifault", Seed: seed, Cfg: cfg}
		g := newGen(seed, 0x636c70, &sc.Cfg)
		sc.Steps = append(sc.Steps, Step{T: "server", A: 0, B: 1 + r.IntN(3)})
		lateStart := r.IntN(3) == 0
		if !lateStart {
			sc.Steps = append(sc.Steps, Step{T: "start"})
		}
		for i := 0; i < 1+r.IntN(8); i++ {
			st := g.batchStep(0, cliOps(g, 1+g.pick(3)))
			st.T = "q"
			sc.Steps = append(sc.Steps, st)
		}
		if lateStart {
			sc.Steps = append(sc.Steps, Step{T: "start"})
		}
		if r.IntN(2) == 0 {
			sc.Steps = append(sc.Steps, Step{T: "burst", A: 1 + r.IntN(8)}, Step{T: "burst-join"})
		}
		if r.IntN(2) == 0 {
			sc.Steps = append(sc.Steps, Step{T: "close"})
		} else {
			sc.Steps = append(sc.Steps, Step{T: "reset", A: r.IntN(2)}, Step{T: "reconnect"})
			st := g.batchStep(0, cliOps(g, 2))
			st.T = "q"
			sc.Steps = append(sc.Steps, st, Step{T: "await", A: 60}, Step{T: "close"})
		}
		return sc
	}
	sc := cliFaultScenario(seed, "clifault", r.IntN(2), r.IntN(12), r.IntN(5), []int{0, 1, 3, 6, 12, 30}[r.IntN(6)], r.IntN(2), r)
	if r.IntN(4) == 0 {
		// a backlog: requests are queued BEFORE sending is started (more of them than the request channel holds),
		// so that the stream fails while StartSending is still writing the buffered requests out
		var steps []Step
		var start *Step
		g0 := newGen(seed, 0x636c6f, &sc.Cfg)
		for i := range sc.Steps {
			st := sc.Steps[i]
			if st.T == "start" && start == nil {
				start = &sc.Steps[i]
				continue
			}
			if start != nil && (st.T == "burst" || st.T == "await") {
				for k := 0; k < 3+r.IntN(12); k++ {
					q := g0.batchStep(0, cliOps(g0, 1+g0.pick(2)))
					q.T = "q"
					steps = append(steps, q)
				}
				steps = append(steps, *start)
				start = nil
			}
			steps = append(steps, st)
		}
		sc.Steps = steps
	}
	n := len(sc.Steps)
	if r.IntN(2) == 0 || n < 2 || sc.Steps[n-1].T != "close" || sc.Steps[n-2].T != "await" {
		return sc
	}
	// Repeated lifecycles of the one client object: further rounds of Reset, (fault armed or not), Connect,
	// exchange - whatever is created per Connect must be fresh every time, not only the first.
	sc.Steps = sc.Steps[:n-1]
	g := newGen(seed, 0x636c6e, &sc.Cfg)
	for c := 0; c < 1+r.IntN(3); c++ {
		sc.Steps = append(sc.Steps, Step{T: "reset", A: r.IntN(2)})
		if r.IntN(5) == 0 {
			sc.Steps = append(sc.Steps, Step{T: "reset"}) // twice in a row
		}
		faulty := r.IntN(2) == 0
		if faulty {
			sc.Steps = append(sc.Steps, Step{T: "fault", Note: []string{"send", "recv"}[r.IntN(2)], A: r.IntN(6), B: r.IntN(5)})
		}
		sc.Steps = append(sc.Steps, Step{T: "reconnect"})
		for i := 0; i < 1+r.IntN(4); i++ {
			st := g.batchStep(0, cliOps(g, 1+g.pick(3)))
			st.T = "q"
			sc.Steps = append(sc.Steps, st)
		}
		if r.IntN(3) == 0 {
			sc.Steps = append(sc.Steps, Step{T: "burst", A: 1 + r.IntN(6)})
		}
		aw := Step{T: "await", A: 30}
		if faulty {
			aw.B = 1
		}
		sc.Steps = append(sc.Steps, aw)
	}
	sc.Steps = append(sc.Steps, Step{T: "close"})
	return sc
}

// ---------------------------------------------------------------------------
// runner and oracles

type cliRun struct {
	e          *env
	c          *client.Client
	srv        *stubServer
	handed     map[uint64]*spb.AFTOperation // every operation handed to Q
	order      []uint64
	nextID     uint64
	elec       [2]uint64
	faulted    bool
	faultWhat  string
	afterReset bool
	pollStop   bool
	pollDone   bool
	polls      int
	inQ        map[uint64]bool // operations whose Q call has not returned yet (not "handed over" yet)
	faultBase  int64           // fault counters when the current round's fault was armed
	dupOps     int             // operations in the request with a repeated id (q-dup)
	dupIDs     map[uint64]bool // their ids
	epoch      int             // bumped around Reset: a Status() snapshot taken across it describes no single session
}

func (cr *cliRun) newClient() {
	opts := []client.Opt{client.ElectedPrimaryClient(&spb.Uint128{Low: 1}), client.PersistEntries()}
	if cr.e.sc.Cfg.FIBAck {
		opts = append(opts, client.FIBACK())
	}
	c, err := client.New(opts...)
	if err != nil {
		panic(err)
	}
	cr.c = c
}

func terminalFor(fib bool, st spb.AFTResult_Status) bool {
	switch st {
	case spb.AFTResult_FAILED:
		return true
	case spb.AFTResult_RIB_PROGRAMMED:
		return !fib
	case spb.AFTResult_FIB_PROGRAMMED, spb.AFTResult_FIB_FAILED:
		return fib
	}
	return false
}

// invariant checks the C13 accounting invariant on one Status() snapshot.
func (cr *cliRun) invariant(when string, final bool) {
	e := cr.e
	ep := cr.epoch
	st, err := cr.c.Status()
	if err != nil {
		e.report("C13", "status-error", "Status() failed", err.Error(), false)
		return
	}
	if cr.epoch != ep || ep%2 == 1 {
		return // a Reset ran while the snapshot was taken
	}
	fib := e.sc.Cfg.FIBAck
	pending := map[uint64]bool{}
	for _, p := range st.PendingTransactions {
		if po, ok := p.(*client.PendingOp); ok {
			pending[po.Op.GetId()] = true
		}
	}
	term := map[uint64]int{}
	ribs := map[uint64]int{}
	for _, r := range st.Results {
		if r == nil {
			continue
		}
		if r.OperationID == 0 && r.ProgrammingResult == spb.AFTResult_UNSET {
			continue
		}
		op := cr.handed[r.OperationID]
		if cr.dupIDs[r.OperationID] {
			continue // operations of the request with a repeated id: judged by the await-dup step only
		}
		if op == nil {
			if !cr.srv.violated {
				e.report("C13", "result-for-unknown-op", "a result for an operation that was never queued", fmt.Sprint(r), false)
			}
			continue
		}
		if terminalFor(fib, r.ProgrammingResult) {
			term[r.OperationID]++
		} else if r.ProgrammingResult == spb.AFTResult_RIB_PROGRAMMED {
			ribs[r.OperationID]++
		}
		// type and key of the result are those of the operation with that id
		if r.Details != nil {
			wantT := constants.OpFromAFTOp(op.GetOp())
			var wantKey, gotKey string
			switch t := op.GetEntry().(type) {
			case *spb.AFTOperation_Ipv4:
				wantKey, gotKey = "v4:"+t.Ipv4.GetPrefix(), "v4:"+r.Details.IPv4Prefix
			case *spb.AFTOperation_Ipv6:
				wantKey, gotKey = "v6:"+t.Ipv6.GetPrefix(), "v6:"+r.Details.IPv6Prefix
			case *spb.AFTOperation_Mpls:
				wantKey, gotKey = fmt.Sprint("mpls:", t.Mpls.GetLabelUint64()), fmt.Sprint("mpls:", r.Details.MPLSLabel)
			case *spb.AFTOperation_NextHopGroup:
				wantKey, gotKey = fmt.Sprint("nhg:", t.NextHopGroup.GetId()), fmt.Sprint("nhg:", r.Details.NextHopGroupID)
			case *spb.AFTOperation_NextHop:
				wantKey, gotKey = fmt.Sprint("nh:", t.NextHop.GetIndex()), fmt.Sprint("nh:", r.Details.NextHopIndex)
			}
			if r.Details.Type != wantT || wantKey != gotKey {
				if cr.afterReset {
					// after Reset and Connect the client must work as a fresh one (C14): this is state of the previous connection
					e.report("C14", "stale-after-reset", "a result of the new connection carries the type or key of an operation of the previous one", fmt.Sprintf("%s: op %d is %s %s, result says %s %s", when, r.OperationID, wantT, wantKey, r.Details.Type, gotKey), false)
				}
				e.report("C13", "result-misattributed", "result carries another operation's type or key", fmt.Sprintf("%s: op %d is %s %s, result says %s %s", when, r.OperationID, wantT, wantKey, r.Details.Type, gotKey), false)
			}
		} else if !cr.srv.violated {
			e.report("C13", "result-without-details", "result lacks the operation's type and key", fmt.Sprintf("%s: %v", when, r), false)
		}
	}
	for _, id := range cr.order {
		switch {
		case term[id] > 1 && !cr.srv.violated:
			e.report("C13", "completed-twice", "operation has two terminal results", fmt.Sprintf("%s: op %d", when, id), false)
		case term[id] == 0 && !pending[id] && cr.inQ[id]:
			// the call handing it over is still running
		case term[id] == 0 && !pending[id]:
			e.report("C13", "operation-lost", "operation is neither pending nor resulted", fmt.Sprintf("%s: op %d (%d operations handed to Q)", when, id, len(cr.order)), false)
		case term[id] > 0 && pending[id] && final:
			e.report("C13", "pending-and-completed", "operation is pending although it has a terminal result", fmt.Sprintf("%s: op %d", when, id), false)
		case ribs[id] > 1 && !cr.srv.violated:
			e.report("C13", "duplicate-rib-result", "RIB acknowledgement recorded twice", fmt.Sprintf("%s: op %d", when, id), false)
		}
	}
}

func runCli(e *env) {
	if e.sc.Family == "clifaultenum" {
		e.probe(fmt.Sprintf("faultpoint %03d", e.sc.Seed%CliFaultSpace))
	}
	cr := &cliRun{e: e, handed: map[uint64]*spb.AFTOperation{}, inQ: map[uint64]bool{}, nextID: 1, elec: [2]uint64{0, 1}}
	cr.srv = &stubServer{e: e, fib: e.sc.Cfg.FIBAck, maxBatch: 1, terminal: map[uint64]spb.AFTResult_Status{}, ribSent: map[uint64]bool{}, opsSeen: map[uint64]*spb.AFTOperation{}, violIdx: -1, lastTermIdx: -1}
	cr.newClient()
	ctx := context.Background()
	connect := func() {
		if err := cr.c.Connect(ctx); err != nil {
			panic(err)
		}
	}
	first := true
	burstDone := true
	// a concurrent poller checks the accounting invariant while everything runs
	simrt.Go("cli-poller", func() {
		defer func() { cr.pollDone = true }()
		for !cr.pollStop {
			simrt.Sleep("poll", 70*time.Millisecond)
			if cr.pollStop {
				return
			}
			func() {
				defer func() {
					if r := recover(); r != nil {
						if _, ok := r.(abortRun); ok {
							cr.pollStop = true
							return
						}
						panic(r)
					}
				}()
				cr.polls++
				e.checkpoint(func() { cr.invariant("poll", false) })
			}()
		}
	})
	defer func() { cr.pollStop = true }()
	for i := range e.sc.Steps {
		st := &e.sc.Steps[i]
		e.step = i
		if len(e.viol) > 0 {
			break
		}
		switch st.T {
		case "server":
			cr.srv.mode, cr.srv.maxBatch = st.A, st.B
			if cr.srv.maxBatch < 1 {
				cr.srv.maxBatch = 1
			}
		case "fault":
			var err error
			c := faultCodes[st.B%len(faultCodes)]
			if c != codes.OK {
				err = status.Error(c, "injected "+c.String())
			}
			cr.faultWhat = fmt.Sprintf("%s-side fault at index %d (%s)", st.Note, st.A, c)
			cr.faultBase = e.sim.Faults["send-error"] + e.sim.Faults["recv-error"]
			if st.Note == "send" {
				if err == nil {
					err = io.EOF
				}
				cr.srv.nextSendFail = map[int]error{st.A: err}
			} else {
				cr.srv.nextRecvFail = map[int]error{st.A: err}
			}
		case "start":
			if first {
				if err := cr.c.UseStub(cr.srv); err != nil {
					panic(err)
				}
				connect()
				first = false
			}
			cr.timed("StartSending", func() { cr.c.StartSending() })
		case "q":
			ops := st.ops()
			if len(ops) == 0 {
				continue
			}
			for _, op := range ops {
				op.Id = cr.nextID
				cr.nextID++
				op.ElectionId = uint128(cr.elec)
				cr.handed[op.Id] = op
				cr.order = append(cr.order, op.Id)
			}
			for _, op := range ops {
				cr.inQ[op.Id] = true
			}
			cr.timed("Q", func() {
				cr.c.Q(&spb.ModifyRequest{Operation: ops})
				for _, op := range ops {
					delete(cr.inQ, op.Id)
				}
			})
		case "q-dup":
			ops := st.ops()
			if len(ops) < 2 {
				continue
			}
			for _, op := range ops {
				op.Id = cr.nextID
				cr.nextID++
				op.ElectionId = uint128(cr.elec)
			}
			i := st.A % (len(ops) - 1)
			ops[i+1].Id = ops[i].Id
			cr.dupOps = len(ops)
			cr.dupIDs = map[uint64]bool{}
			for _, op := range ops {
				cr.dupIDs[op.Id] = true
			}
			cr.pollStop = true // the per-id book-keeping of the poller does not describe this request
			cr.timed("Q", func() { cr.c.Q(&spb.ModifyRequest{Operation: ops}) })
		case "await-dup":
			if cr.dupOps == 0 {
				continue
			}
			ctx, cancel := context.WithTimeout(context.Background(), time.Duration(st.A)*time.Second)
			var err error
			done := false
			simrt.Go("cli-await-dup", func() {
				err = cr.c.AwaitConverged(ctx)
				done = true
			})
			ok := simrt.WaitUntil("await-dup-join", "AwaitConverged returns", time.Duration(st.A+30)*time.Second, func() bool { return done })
			cancel()
			if !ok {
				e.report("C14", "await-blocked", "AwaitConverged did not return (not even on context expiry)", e.sim.Describe(), false)
				continue
			}
			if err == nil {
				sst, _ := cr.c.Status()
				e.report("C13", "operation-lost", "AwaitConverged reported success although two operations of one request shared an id: one of them is neither queued, pending nor resulted",
					fmt.Sprintf("%d operations handed over in the request; status: %d pending, %d results, %d send errors", cr.dupOps, len(sst.PendingTransactions), len(sst.Results), len(sst.SendErrs)), false)
			}
			e.probe("client: request with a repeated operation id did not converge silently")
		case "q-elect":
			cr.elec = *st.Elec
			cr.timed("Q", func() { cr.c.Q(&spb.ModifyRequest{ElectionId: uint128(*st.Elec)}) })
		case "burst":
			// the application keeps queueing while the stream may be failing
			n := st.A
			burstDone = false
			simrt.Go("cli-burst", func() {
				defer func() { burstDone = true }()
				for k := 0; k < n; k++ {
					id := cr.nextID
					cr.nextID++
					op := &spb.AFTOperation{Id: id, NetworkInstance: "DEFAULT", Op: spb.AFTOperation_ADD, ElectionId: uint128(cr.elec),
						Entry: &spb.AFTOperation_NextHop{NextHop: &aftpb.Afts_NextHopKey{Index: 100 + id, NextHop: &aftpb.Afts_NextHop{}}}}
					cr.handed[id] = op
					cr.order = append(cr.order, id)
					cr.inQ[id] = true
					cr.c.Q(&spb.ModifyRequest{Operation: []*spb.AFTOperation{op}})
					delete(cr.inQ, id)
				}
			})
		case "burst-join":
			// the queueing calls themselves return (the stream is healthy); what they queued is still on its way
			if !burstDone && !simrt.WaitUntil("burst-join", "queueing burst returns", 10*time.Second, func() bool { return burstDone }) {
				e.report("C14", "q-blocked", "a call queueing a request on a healthy stream never returned", e.sim.Describe(), false)
			}
			cr.pollStop = true // Close / Reset follow at once: the accounting of the abandoned exchange is not judged
		case "await":
			cr.await(st)
			if !burstDone {
				if !simrt.WaitUntil("burst-join", "queueing burst returns", 10*time.Second, func() bool { return burstDone }) {
					e.report("C14", "q-blocked", "a call queueing a request never returned after the stream failed", cr.faultWhat+"\n"+e.sim.Describe(), false)
				}
			}
		case "close":
			cr.timed("Close", func() {
				if err := cr.c.Close(); err != nil {
					e.sim.Log("close-error", err.Error())
				}
			})
			cr.census("Close")
		case "reset":
			cr.epoch++
			cr.timed("Reset", func() { cr.c.Reset() })
			cr.census("Reset")
			st2, _ := cr.c.Status()
			if st2 != nil && (len(st2.PendingTransactions) > 0 || len(st2.Results) > 0 || len(st2.SendErrs) > 0 || len(st2.ReadErrs) > 0) {
				e.report("C14", "stale-after-reset", "pending operations, results or errors survive Reset", fmt.Sprintf("pending %d results %d send errs %d recv errs %d", len(st2.PendingTransactions), len(st2.Results), len(st2.SendErrs), len(st2.ReadErrs)), false)
			}
			select {
			case <-cr.c.Done():
				e.report("C14", "stale-after-reset", "Done is still signalled after Reset", "", false)
			default:
			}
			cr.handed, cr.order, cr.faulted, cr.afterReset = map[uint64]*spb.AFTOperation{}, nil, false, true
			if st.A == 1 {
				// the application numbers its operations from 1 again after Reset: nothing remembered about the
				// operations of the previous connection may leak into the new ones
				cr.nextID = 1
				e.probe("client: operation ids restart after Reset")
			}
			cr.epoch++
		case "reconnect":
			cr.srv.violated = false
			connect()
			cr.c.StartSending()
			e.probe("client: reconnected after Reset")
		}
	}
	cr.pollStop = true
	simrt.WaitUntil("poller-join", "poller exit", time.Minute, func() bool { return cr.pollDone })
}

// timed runs f and reports C14 if it does not return within bounded simulated time.
func (cr *cliRun) timed(what string, f func()) {
	done := false
	simrt.Go("cli-call-"+what, func() {
		f()
		done = true
	})
	if !simrt.WaitUntil("call-"+what, what+" returns", 10*time.Second, func() bool { return done }) {
		cr.e.report("C14", strings.ToLower(what)+"-blocked", what+" did not return within 10 simulated seconds", cr.faultWhat+"\n"+cr.e.sim.Describe(), false)
	}
}

// census: no sender/receiver task of Connect may be alive after Close/Reset.
func (cr *cliRun) census(after string) {
	var live []string
	for _, site := range cr.e.sim.LiveTasks() {
		if strings.HasPrefix(site, "gribiclient.go:") {
			live = append(live, site)
		}
	}
	if len(live) > 0 {
		sort.Strings(live)
		cr.e.report("C14", "goroutine-leak", "sender/receiver goroutine alive after "+after, fmt.Sprintf("%v %s\n%s", live, cr.faultWhat, cr.e.sim.Describe()), false)
	}
}

// await calls AwaitConverged and checks its contract.
func (cr *cliRun) await(st *Step) {
	e := cr.e
	ctx, cancel := context.WithTimeout(context.Background(), time.Duration(st.A)*time.Second)
	defer cancel()
	var err error
	done := false
	// operations handed over (Q returned) before AwaitConverged was called: these - not the ones a concurrent
	// burst queues while it polls - must all be answered if it reports convergence
	var handedBefore []uint64
	for _, id := range cr.order {
		if !cr.inQ[id] {
			handedBefore = append(handedBefore, id)
		}
	}
	simrt.Go("cli-await", func() {
		err = cr.c.AwaitConverged(ctx)
		done = true
	})
	if !simrt.WaitUntil("await-join", "AwaitConverged returns", time.Duration(st.A+30)*time.Second, func() bool { return done }) {
		e.report("C14", "await-blocked", "AwaitConverged did not return (not even on context expiry)", cr.faultWhat+"\n"+e.sim.Describe(), false)
		return
	}
	fault := st.B == 1
	sst, _ := cr.c.Status()
	switch {
	case fault:
		// C14: the error is recorded, AwaitConverged reports it, Done is signalled
		cr.faulted = true
		fired := e.sim.Faults["send-error"]+e.sim.Faults["recv-error"] > cr.faultBase
		if !fired {
			e.probe("client: injected fault position was never reached")
			if err != nil && !errors.Is(err, context.DeadlineExceeded) {
				e.report("C14", "spurious-error", "AwaitConverged failed although no fault fired", err.Error(), false)
			}
			return
		}
		e.probe("client: stream fault observed")
		if err == nil {
			// (a clean EOF on the receive side is not an error, the client just stops - but convergence may still
			// only be reported if nothing is left pending)
			// convergence is legitimate if every operation had been answered before the failure was observed
			fib := e.sc.Cfg.FIBAck
			answered := map[uint64]bool{}
			if sst != nil {
				for _, r := range sst.Results {
					if r != nil && terminalFor(fib, r.ProgrammingResult) {
						answered[r.OperationID] = true
					}
				}
			}
			for _, id := range handedBefore {
				if !answered[id] {
					e.report("C14", "converged-despite-fault", "AwaitConverged reported convergence after the stream failed with operations unanswered", fmt.Sprintf("%s; op %d has no terminal result", cr.faultWhat, id), false)
					return
				}
			}
			e.probe("client: everything was answered before the fault was observed")
			return
		}
		if errors.Is(err, context.DeadlineExceeded) {
			if strings.Contains(cr.faultWhat, "(OK)") && strings.HasPrefix(cr.faultWhat, "recv") {
				return // EOF from the server: nothing is recorded, the operations stay pending
			}
			e.report("C14", "error-not-reported", "AwaitConverged ran into its deadline instead of returning the stream error", cr.faultWhat, false)
			return
		}
		if sst != nil && len(sst.SendErrs)+len(sst.ReadErrs) == 0 {
			e.report("C14", "error-not-recorded", "AwaitConverged failed but Status() shows no error", err.Error(), false)
		}
		sig := false
		simrt.WaitUntil("done-wait", "Done signalled", 5*time.Second, func() bool {
			select {
			case <-cr.c.Done():
				sig = true
			default:
			}
			return sig
		})
		if !sig {
			e.report("C14", "done-not-signalled", "Done() was not signalled after the stream failed", cr.faultWhat, false)
		}
	case cr.srv.violated:
		e.probe("client: protocol-violating server")
		if err == nil && cr.srv.violIdx >= 0 && cr.srv.violIdx <= cr.srv.lastTermIdx {
			// Convergence means every operation has its terminal result, so the client has consumed
			// the response carrying the last of them - and the offending result travelled in that
			// response or an earlier one. The error was therefore recorded before success was reported.
			mode := "RIB-ack mode"
			if e.sc.Cfg.FIBAck {
				mode = "FIB-ack mode"
			}
			e.probe("client: violation delivered no later than the last terminal result")
			e.report("C13", "violation-not-surfaced", cr.srv.violation+" in "+mode+" did not surface as an error", fmt.Sprintf("AwaitConverged returned success although the offending result (response #%d) had been consumed together with or before the last terminal result (response #%d)", cr.srv.violIdx, cr.srv.lastTermIdx), true)
			return
		}
		if err == nil {
			// the offending result may simply not have been delivered yet: let the
			// client consume everything the server has sent, then ask again
			simrt.Sleep("violation-settle", 2*time.Second)
			simrt.AwaitQuiescence("violation-settle")
			ctx2, cancel2 := context.WithTimeout(context.Background(), 5*time.Second)
			done2 := false
			simrt.Go("cli-await2", func() {
				err = cr.c.AwaitConverged(ctx2)
				done2 = true
			})
			simrt.WaitUntil("await2-join", "AwaitConverged returns", 40*time.Second, func() bool { return done2 })
			cancel2()
		}
		if err == nil || errors.Is(err, context.DeadlineExceeded) {
			mode := "RIB-ack mode"
			if e.sc.Cfg.FIBAck {
				mode = "FIB-ack mode"
			}
			e.report("C13", "violation-not-surfaced", cr.srv.violation+" in "+mode+" did not surface as an error", fmt.Sprintf("AwaitConverged returned %v", err), true)
		}
	default:
		if err != nil {
			if cr.afterReset {
				e.report("C14", "not-fresh-after-reset", "after Reset and Connect a new exchange with a compliant server did not converge", err.Error(), false)
				return
			}
			e.report("C13", "await-error", "AwaitConverged failed against a compliant server", err.Error(), false)
			return
		}
		// converged = answered: nothing pending, every operation terminally resulted
		e.probe("client: converged")
		if sst != nil && len(sst.PendingTransactions) > 0 {
			e.report("C13", "converged-with-pending", "AwaitConverged returned nil with pending requests", fmt.Sprint(len(sst.PendingTransactions)), false)
		}
		e.checkpoint(func() { cr.invariant("converged", true) })
		fib := e.sc.Cfg.FIBAck
		if sst != nil {
			got := map[uint64]spb.AFTResult_Status{}
			for _, r := range sst.Results {
				if r != nil && terminalFor(fib, r.ProgrammingResult) {
					got[r.OperationID] = r.ProgrammingResult
				}
			}
			for _, id := range cr.order {
				if want, ok := cr.srv.terminal[id]; !ok || got[id] != want {
					e.report("C13", "wrong-terminal-result", "terminal result differs from what the server sent", fmt.Sprintf("op %d: server %v client %v", id, want, got[id]), false)
				}
			}
		}
	}
}
