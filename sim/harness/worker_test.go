package harness

import (
	"encoding/json"
	"flag"
	"fmt"
	"os"
	"runtime"
	"runtime/debug"
	"sort"
	"testing"
	"time"

	"verifsim/simrt"
)

// Job is what the orchestrator hands to one worker process.
type Job struct {
	Mode      string   `json:"mode"` // "explore", "replay", "selftest"
	Prop      string   `json:"property"`
	Families  []string `json:"families"`
	SeedBase  uint64   `json:"seed_base"`
	Worker    int      `json:"worker"`
	Workers   int      `json:"workers"`
	Start     int      `json:"start"` // first run index of this worker (for continuation after recycling)
	Count     int      `json:"count"` // max runs for this worker
	BudgetS   float64  `json:"budget_s"`
	Known     string   `json:"known"`
	Out       string   `json:"out"`
	ReplayDir string   `json:"replay_dir"`
	Replay    string   `json:"replay"` // replay file (mode replay)
	MaxKeep   int      `json:"max_keep"`
	Tree      string   `json:"tree"`
	// RaceLog: GORACE log_path prefix; set for workers running the -race binary.
	RaceLog string `json:"race_log"`
}

type ViolationReport struct {
	Violation  Violation `json:"violation"`
	ReplayFile string    `json:"replay_file"`
	Seed       uint64    `json:"seed"`
	Family     string    `json:"family"`
	ShrinkRuns int       `json:"shrink_runs"`
	StepsFrom  int       `json:"steps_before_shrink"`
	StepsTo    int       `json:"steps_after_shrink"`
	Replayed   bool      `json:"replayed_identically"`
}

type WorkerOut struct {
	Runs          int               `json:"runs"`
	NextIndex     int               `json:"next_index"`
	Recycle       bool              `json:"recycle"`
	Outcomes      map[string]int    `json:"outcomes"`
	Steps         int64             `json:"steps"`
	Switches      int64             `json:"switches"`
	Stmts         int64             `json:"stmts"`
	SimTimeMS     int64             `json:"sim_time_ms"`
	OpsSent       int64             `json:"ops_sent"`
	Fingerprints  []uint64          `json:"fingerprints"`
	NontrivialFP  []uint64          `json:"nontrivial_fingerprints"`
	Interleavings []uint64          `json:"interleavings"`
	ModelStates   []uint64          `json:"model_states"`
	Probes        map[string]int64  `json:"probes"`
	Faults        map[string]int64  `json:"faults"`
	KnownHits     map[string]int    `json:"known_hits"`
	KnownExample  map[string]string `json:"known_example"`
	OtherProps    map[string]int    `json:"other_property_observations"`
	OtherExample  map[string]string `json:"other_property_example"`
	Violations    []ViolationReport `json:"violations"`
	Samples       []json.RawMessage `json:"samples"`
	SelfTest      map[string]uint64 `json:"selftest,omitempty"` // "family/seed" -> fingerprint
	WallS         float64           `json:"wall_s"`
	HarnessError  string            `json:"harness_error,omitempty"`
}

type ReplayFile struct {
	Property   string        `json:"property"`
	Violation  Violation     `json:"violation"`
	Spec       RunSpec       `json:"spec"`
	Tree       string        `json:"tree"`
	Events     []simrt.Event `json:"last_events"`
	ShrinkRuns int           `json:"shrink_runs"`
	Note       string        `json:"note,omitempty"`
}

func init() {
	// glog: keep it off the disk
	flag.Set("logtostderr", "true")
}

func setOf(m map[uint64]bool) []uint64 {
	out := make([]uint64, 0, len(m))
	for k := range m {
		out = append(out, k)
	}
	sort.Slice(out, func(i, j int) bool { return out[i] < out[j] })
	return out
}

func TestWorker(t *testing.T) {
	realTB = t
	jp := os.Getenv("VERIF_JOB")
	if jp == "" {
		t.Skip("no VERIF_JOB")
	}
	b, err := os.ReadFile(jp)
	if err != nil {
		t.Fatal(err)
	}
	var job Job
	if err := json.Unmarshal(b, &job); err != nil {
		t.Fatal(err)
	}
	known, err := LoadKnown(job.Known)
	if err != nil {
		t.Fatal(err)
	}
	out := &WorkerOut{Outcomes: map[string]int{}, Probes: map[string]int64{}, Faults: map[string]int64{}, KnownHits: map[string]int{}, KnownExample: map[string]string{}, OtherProps: map[string]int{}, OtherExample: map[string]string{}}
	defer func() {
		if r := recover(); r != nil {
			out.HarnessError = fmt.Sprintf("%v\n%s", r, debug.Stack())
		}
		js, _ := json.Marshal(out)
		os.WriteFile(job.Out, js, 0o644)
	}()
	start := time.Now()
	if cp := os.Getenv("VERIF_COVER"); cp != "" {
		simrt.CoverEnable()
		defer func() {
			js, _ := json.Marshal(simrt.CoverSnapshot())
			os.MkdirAll(cp, 0o755)
			os.WriteFile(fmt.Sprintf("%s/%s-%d-%d.json", cp, job.Prop, os.Getpid(), time.Now().UnixNano()), js, 0o644)
		}()
	}
	switch job.Mode {
	case "replay":
		workerReplay(t, &job, known, out)
	case "one":
		r := ExecRun(t, RunSpec{Prop: job.Prop, Family: job.Families[0], Seed: job.SeedBase}, known)
		out.Runs = 1
		out.Outcomes[r.Outcome]++
		js, _ := json.MarshalIndent(map[string]any{"scenario": r.Spec.Scenario, "violations": r.Violations, "outcome": r.Outcome, "detail": r.Detail, "events": r.Events, "probes": r.Probes, "faults": r.Faults}, "", " ")
		out.Samples = append(out.Samples, js)
	case "selftest":
		out.SelfTest = map[string]uint64{}
		for i := 0; i < job.Count; i++ {
			for _, fam := range job.Families {
				seed := job.SeedBase + uint64(i)
				r := ExecRun(t, RunSpec{Prop: job.Prop, Family: fam, Seed: seed}, known)
				out.SelfTest[fmt.Sprintf("%s/%d", fam, seed)] = r.Fingerprint
				out.Runs++
			}
		}
	default:
		workerExplore(t, &job, known, out, start)
	}
	out.WallS = time.Since(start).Seconds()
}

func workerExplore(t *testing.T, job *Job, known *KnownFindings, out *WorkerOut, start time.Time) {
	fps, nfps, ils, mss := map[uint64]bool{}, map[uint64]bool{}, map[uint64]bool{}, map[uint64]bool{}
	seenViol := map[string]bool{}
	if job.MaxKeep == 0 {
		job.MaxKeep = 3
	}
	i := job.Start
	for ; i < job.Start+job.Count; i++ {
		if time.Since(start).Seconds() > job.BudgetS {
			break
		}
		if i%64 == 63 {
			// goroutines abandoned by finished runs (and what they keep alive) are never collected: the worker
			// process is replaced before they add up - by count, and by what the heap has grown to (16 workers
			// share the machine's memory; a worker that the kernel kills leaves no result)
			recycle := runtime.NumGoroutine() > 20000
			if !recycle && i%512 == 511 {
				var ms runtime.MemStats
				runtime.ReadMemStats(&ms)
				recycle = ms.HeapAlloc > 1500<<20
			}
			if recycle {
				out.Recycle = true
				break
			}
		}
		fam := job.Families[i%len(job.Families)]
		// The n-th run of a family by this worker uses seed base + worker + n*workers: over all workers every
		// family walks through the integers from base upwards exactly once, so families that enumerate a fault
		// space by seed arithmetic (seed mod points) visit every point evenly whatever the number of workers
		// and whatever the weight of the family in the list.
		n, per := 0, 0
		for j, f := range job.Families {
			if f == fam {
				if j < i%len(job.Families) {
					n++
				}
				per++
			}
		}
		n += (i / len(job.Families)) * per
		seed := job.SeedBase + uint64(job.Worker) + uint64(n)*uint64(job.Workers)
		spec := RunSpec{Prop: job.Prop, Family: fam, Seed: seed}
		var raceBefore int64
		if job.RaceLog != "" {
			_, raceBefore = raceLogSize(job.RaceLog)
		}
		r := ExecRun(t, spec, known)
		if job.RaceLog != "" {
			if path, sz := raceLogSize(job.RaceLog); sz > raceBefore {
				b, _ := os.ReadFile(path)
				for _, rep := range parseRaceLog(string(b[raceBefore:])) {
					if !rep.InSUT {
						out.OtherProps["harness-race/"+rep.Sig]++
						continue
					}
					v := Violation{Prop: "C11", Class: "data-race", Sig: rep.Sig, Detail: trunc(rep.Text, 6000)}
					v.Known = known.Match(v)
					r.Violations = append(r.Violations, v)
					r.Outcome = "race"
				}
			}
		}
		out.Runs++
		out.Outcomes[r.Outcome]++
		out.Steps += r.Steps
		out.Switches += r.Switches
		out.Stmts += r.Stmts
		out.SimTimeMS += r.SimTimeMS
		out.OpsSent += int64(r.OpsSent)
		fps[r.Fingerprint] = true
		if r.Nontrivial {
			nfps[r.Fingerprint] = true
		}
		ils[r.Interleave] = true
		for _, h := range r.ModelStates {
			mss[h] = true
		}
		for k, v := range r.Probes {
			out.Probes[k] += v
		}
		for k, v := range r.Faults {
			out.Faults[k] += v
		}
		if len(out.Samples) < 2 {
			js, _ := json.Marshal(map[string]any{"family": fam, "seed": seed, "scenario": r.Spec.Scenario, "outcome": r.Outcome, "fingerprint": fmt.Sprintf("%016x", r.Fingerprint), "steps": r.Steps, "faults": r.Faults})
			out.Samples = append(out.Samples, js)
		}
		for _, v := range r.Violations {
			if v.Prop != job.Prop {
				out.OtherProps[v.Key()]++
				if out.OtherExample[v.Key()] == "" {
					out.OtherExample[v.Key()] = fmt.Sprintf("seed %d family %s: %s", seed, fam, trunc(v.Detail, 300))
				}
				continue
			}
			if v.Known != "" {
				out.KnownHits[v.Known]++
				if out.KnownExample[v.Known] == "" {
					out.KnownExample[v.Known] = fmt.Sprintf("seed %d family %s: %s: %s", seed, fam, v.Sig, trunc(v.Detail, 300))
				}
				continue
			}
			if seenViol[v.Key()] || len(out.Violations) >= job.MaxKeep {
				seenViol[v.Key()] = true
				continue
			}
			seenViol[v.Key()] = true
			if v.Class == "data-race" {
				out.Violations = append(out.Violations, reportRace(job, spec, r, v))
				continue
			}
			out.Violations = append(out.Violations, reportViolation(t, job, known, spec, r, v))
		}
	}
	out.NextIndex = i
	out.Fingerprints, out.NontrivialFP, out.Interleavings, out.ModelStates = setOf(fps), setOf(nfps), setOf(ils), setOf(mss)
}

func trunc(s string, n int) string {
	if len(s) > n {
		return s[:n] + "..."
	}
	return s
}

// reportViolation minimises the failing run, writes the replay file, and
// confirms that replaying the file reproduces the violation.
func reportViolation(t *testing.T, job *Job, known *KnownFindings, spec RunSpec, r *RunResult, v Violation) ViolationReport {
	before := len(r.Spec.Scenario.Steps)
	mspec, mres, runs := Shrink(t, spec, r, v, known, 400)
	var mv Violation
	for _, x := range mres.Violations {
		if x.Key() == v.Key() {
			mv = x
		}
	}
	rf := ReplayFile{Property: v.Prop, Violation: mv, Spec: mspec, Tree: job.Tree, Events: mres.Events, ShrinkRuns: runs}
	os.MkdirAll(job.ReplayDir, 0o755)
	path := fmt.Sprintf("%s/%s-%s-%d-%s.json", job.ReplayDir, v.Prop, spec.Family, spec.Seed, classTag(v))
	js, _ := json.MarshalIndent(rf, "", " ")
	os.WriteFile(path, js, 0o644)
	// replay once more from the file's content
	again := ExecRun(t, mspec, known)
	same := again.Fingerprint == mres.Fingerprint
	return ViolationReport{Violation: mv, ReplayFile: path, Seed: spec.Seed, Family: spec.Family, ShrinkRuns: runs, StepsFrom: before, StepsTo: len(mspec.Scenario.Steps), Replayed: same}
}

func workerReplay(t *testing.T, job *Job, known *KnownFindings, out *WorkerOut) {
	b, err := os.ReadFile(job.Replay)
	if err != nil {
		panic(err)
	}
	var rf ReplayFile
	if err := json.Unmarshal(b, &rf); err != nil {
		panic(err)
	}
	rf.Spec.Replay = true
	// (known findings are soft here exactly when the job names the known-findings file; reproducers of known findings are replayed without it)
	var raceBefore int64
	if job.RaceLog != "" {
		_, raceBefore = raceLogSize(job.RaceLog)
	}
	r := ExecRun(t, rf.Spec, known)
	if job.RaceLog != "" {
		if path, sz := raceLogSize(job.RaceLog); sz > raceBefore {
			b, _ := os.ReadFile(path)
			for _, rep := range parseRaceLog(string(b[raceBefore:])) {
				if rep.InSUT {
					r.Violations = append(r.Violations, Violation{Prop: "C11", Class: "data-race", Sig: rep.Sig, Detail: trunc(rep.Text, 6000)})
				}
			}
		}
	}
	out.Runs = 1
	out.Outcomes[r.Outcome]++
	for _, v := range r.Violations {
		if v.Key() == rf.Violation.Key() {
			out.Violations = append(out.Violations, ViolationReport{Violation: v, ReplayFile: job.Replay, Seed: rf.Spec.Seed, Family: rf.Spec.Family, Replayed: true})
			return
		}
	}
	for _, v := range r.Violations {
		out.OtherProps[v.Key()]++
	}
}

// reportRace writes the replay file of a data race: the seed's workload and the
// round structure (release sets) are replayed; the detector's two stacks are kept.
func reportRace(job *Job, spec RunSpec, r *RunResult, v Violation) ViolationReport {
	mspec := spec
	mspec.Scenario = r.Spec.Scenario
	mspec.Tapes = r.TapesOut
	mspec.Replay = true
	rf := ReplayFile{Property: v.Prop, Violation: v, Spec: mspec, Tree: job.Tree, Note: "data race found in co-release mode under the Go race detector; replay needs the -race binary (./check replay does that)"}
	os.MkdirAll(job.ReplayDir, 0o755)
	path := fmt.Sprintf("%s/%s-%s-%d.json", job.ReplayDir, v.Prop, spec.Family, spec.Seed)
	js, _ := json.MarshalIndent(rf, "", " ")
	os.WriteFile(path, js, 0o644)
	return ViolationReport{Violation: v, ReplayFile: path, Seed: spec.Seed, Family: spec.Family, StepsFrom: len(mspec.Scenario.Steps), StepsTo: len(mspec.Scenario.Steps), Replayed: true}
}

// classTag distinguishes the replay files of different violations found by the same seed.
func classTag(v Violation) string {
	h := uint32(2166136261)
	for _, c := range []byte(v.Class + "/" + v.Sig) {
		h = (h ^ uint32(c)) * 16777619
	}
	return fmt.Sprintf("%s-%04x", v.Class, h&0xffff)
}
