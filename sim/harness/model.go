package harness

// Reference model of the gRIBI server's RIB: small, sequential, executable.
// Rules come from the property statements and the gRIBI specification, not from
// the implementation (DESIGN.md §4).

import (
	"fmt"
	"net/netip"
	"sort"
	"strings"

	aftpb "github.com/openconfig/gribi/v1/proto/gribi_aft"
	spb "github.com/openconfig/gribi/v1/proto/service"
	"google.golang.org/protobuf/proto"
)

type Kind int

const (
	KNH Kind = iota
	KNHG
	KV4
	KV6
	KMPLS
)

func (k Kind) String() string { return [...]string{"nh", "nhg", "ipv4", "ipv6", "mpls"}[k] }

func (k Kind) AFT() spb.AFTType {
	return [...]spb.AFTType{spb.AFTType_NEXTHOP, spb.AFTType_NEXTHOP_GROUP, spb.AFTType_IPV4, spb.AFTType_IPV6, spb.AFTType_MPLS}[k]
}

var allKinds = []Kind{KNH, KNHG, KV4, KV6, KMPLS}

type Key struct {
	NI   string
	Kind Kind
	ID   uint64 // nh index, nhg id, label
	Pfx  string // ipv4/ipv6 prefix
}

func (k Key) String() string {
	if k.Kind == KV4 || k.Kind == KV6 {
		return fmt.Sprintf("%s/%s/%s", k.NI, k.Kind, k.Pfx)
	}
	return fmt.Sprintf("%s/%s/%d", k.NI, k.Kind, k.ID)
}

type Validity int

const (
	Valid Validity = iota
	Invalid
	Unspecified // the properties do not fix whether this must be accepted
)

// Entry is an installed entry: the *Key message last programmed for it.
type Entry struct {
	Key Key
	Msg proto.Message
	// references
	NHs   []uint64 // nhg: member next-hop indices (same NI)
	NHGNI string   // top-level: network instance of the group (resolved, never "")
	NHG   uint64   // top-level: group id
	// Loose: installed by an operation of Unspecified validity; its stored payload
	// (and hence what it references) is not predicted.
	Loose bool
}

type HeldOp struct {
	Sess int
	Op   *spb.AFTOperation
}

type Model struct {
	Default string
	NIs     map[string]bool
	Tab     map[Key]*Entry
	FwdRefs bool
}

func NewModel(def string, vrfs []string, fwd bool) *Model {
	m := &Model{Default: def, NIs: map[string]bool{def: true}, Tab: map[Key]*Entry{}, FwdRefs: fwd}
	for _, v := range vrfs {
		m.NIs[v] = true
	}
	return m
}

const maxLabel = 1048575

// Analyse classifies op and extracts its key and references. A structurally
// valid ADD/REPLACE whose payload is not of an ordinary shape is Unspecified.
func (m *Model) Analyse(op *spb.AFTOperation) (Validity, *Entry, string) {
	v, e, why := m.analyseStruct(op)
	if v == Valid && e != nil && op.GetOp() != spb.AFTOperation_DELETE {
		if ok, odd := m.ordinaryPayload(e.Msg); !ok {
			return Unspecified, e, "unusual payload: " + odd
		}
	}
	return v, e, why
}

// analyseStruct is the structural part of Analyse.
func (m *Model) analyseStruct(op *spb.AFTOperation) (Validity, *Entry, string) {
	ni := op.GetNetworkInstance()
	switch op.GetOp() {
	case spb.AFTOperation_ADD, spb.AFTOperation_REPLACE, spb.AFTOperation_DELETE:
	default:
		return Invalid, nil, "unsupported operation type"
	}
	if ni == "" {
		return Invalid, nil, "empty network instance"
	}
	if !m.NIs[ni] {
		return Invalid, nil, "unknown network instance"
	}
	isDel := op.GetOp() == spb.AFTOperation_DELETE
	e := &Entry{}
	topLevel := func(nhg interface{ GetValue() uint64 }, nhgSet bool, nhgNI string, nhgNISet bool) (Validity, string) {
		if isDel {
			return Valid, ""
		}
		if !nhgSet || nhg.GetValue() == 0 {
			return Invalid, "missing or zero next-hop-group"
		}
		e.NHG = nhg.GetValue()
		e.NHGNI = ni
		if nhgNISet && nhgNI != "" {
			if !m.NIs[nhgNI] {
				return Invalid, "unknown next-hop-group network instance"
			}
			e.NHGNI = nhgNI
		}
		return Valid, ""
	}
	switch t := op.GetEntry().(type) {
	case *spb.AFTOperation_NextHop:
		if t.NextHop == nil {
			return Invalid, nil, "nil next-hop"
		}
		if t.NextHop.GetIndex() == 0 {
			return Invalid, nil, "zero next-hop index"
		}
		e.Key = Key{NI: ni, Kind: KNH, ID: t.NextHop.GetIndex()}
		e.Msg = t.NextHop
		if !isDel && t.NextHop.NextHop == nil {
			return Invalid, e, "next-hop without payload"
		}
		return Valid, e, ""
	case *spb.AFTOperation_NextHopGroup:
		if t.NextHopGroup == nil {
			return Invalid, nil, "nil next-hop-group"
		}
		if t.NextHopGroup.GetId() == 0 {
			return Invalid, nil, "zero next-hop-group id"
		}
		e.Key = Key{NI: ni, Kind: KNHG, ID: t.NextHopGroup.GetId()}
		e.Msg = t.NextHopGroup
		if isDel {
			return Valid, e, ""
		}
		nhs := t.NextHopGroup.GetNextHopGroup().GetNextHop()
		if len(nhs) == 0 {
			return Invalid, e, "empty next-hop-group"
		}
		seen := map[uint64]bool{}
		for _, nh := range nhs {
			if nh.GetIndex() == 0 {
				return Invalid, e, "zero next-hop index in group"
			}
			if seen[nh.GetIndex()] {
				return Unspecified, e, "duplicate next-hop in group"
			}
			seen[nh.GetIndex()] = true
			e.NHs = append(e.NHs, nh.GetIndex())
		}
		sort.Slice(e.NHs, func(i, j int) bool { return e.NHs[i] < e.NHs[j] })
		return Valid, e, ""
	case *spb.AFTOperation_Ipv4:
		if t.Ipv4 == nil {
			return Invalid, nil, "nil ipv4 entry"
		}
		e.Key = Key{NI: ni, Kind: KV4, Pfx: t.Ipv4.GetPrefix()}
		e.Msg = t.Ipv4
		pv := prefixValidity(t.Ipv4.GetPrefix(), false)
		if pv == Invalid {
			return Invalid, e, "invalid ipv4 prefix"
		}
		if !isDel && t.Ipv4.Ipv4Entry == nil {
			return Invalid, e, "nil ipv4 payload"
		}
		ie := t.Ipv4.GetIpv4Entry()
		v, why := topLevel(ie.GetNextHopGroup(), ie.GetNextHopGroup() != nil, ie.GetNextHopGroupNetworkInstance().GetValue(), ie.GetNextHopGroupNetworkInstance() != nil)
		if v != Valid {
			return v, e, why
		}
		return pv, e, "non-canonical prefix"
	case *spb.AFTOperation_Ipv6:
		if t.Ipv6 == nil {
			return Invalid, nil, "nil ipv6 entry"
		}
		e.Key = Key{NI: ni, Kind: KV6, Pfx: t.Ipv6.GetPrefix()}
		e.Msg = t.Ipv6
		pv := prefixValidity(t.Ipv6.GetPrefix(), true)
		if pv == Invalid {
			return Invalid, e, "invalid ipv6 prefix"
		}
		if !isDel && t.Ipv6.Ipv6Entry == nil {
			return Invalid, e, "nil ipv6 payload"
		}
		ie := t.Ipv6.GetIpv6Entry()
		v, why := topLevel(ie.GetNextHopGroup(), ie.GetNextHopGroup() != nil, ie.GetNextHopGroupNetworkInstance().GetValue(), ie.GetNextHopGroupNetworkInstance() != nil)
		if v != Valid {
			return v, e, why
		}
		return pv, e, "non-canonical prefix"
	case *spb.AFTOperation_Mpls:
		if t.Mpls == nil {
			return Invalid, nil, "nil label entry"
		}
		lu, ok := t.Mpls.GetLabel().(*aftpb.Afts_LabelEntryKey_LabelUint64)
		if !ok {
			return Unspecified, nil, "label not given as uint64"
		}
		e.Key = Key{NI: ni, Kind: KMPLS, ID: lu.LabelUint64}
		e.Msg = t.Mpls
		if lu.LabelUint64 > maxLabel {
			return Invalid, e, "label out of range"
		}
		if lu.LabelUint64 < 16 {
			// the AFT schema's numeric label range is 16..1048575 (reserved labels are spelt as enum
			// values): a uint64 label below 16 is out of range for an ADD and for a DELETE alike
			return Invalid, e, "label out of range (reserved value given as a number)"
		}
		if !isDel && t.Mpls.LabelEntry == nil {
			return Invalid, e, "nil label payload"
		}
		le := t.Mpls.GetLabelEntry()
		v, why := topLevel(le.GetNextHopGroup(), le.GetNextHopGroup() != nil, le.GetNextHopGroupNetworkInstance().GetValue(), le.GetNextHopGroupNetworkInstance() != nil)
		return v, e, why
	case nil:
		return Invalid, nil, "nil entry"
	}
	return Invalid, nil, "unknown entry type"
}

func prefixValidity(p string, v6 bool) Validity {
	pf, err := netip.ParsePrefix(p)
	if err != nil {
		return Invalid
	}
	if pf.Addr().Is6() != v6 || pf.Addr().Zone() != "" || pf.Addr().Is4In6() {
		return Invalid
	}
	if pf.Masked() != pf || pf.String() != strings.ToLower(p) {
		return Unspecified
	}
	return Valid
}

// Resolvable reports whether everything e references is installed.
func (m *Model) Resolvable(e *Entry) bool {
	switch e.Key.Kind {
	case KNH:
		return true
	case KNHG:
		for _, nh := range e.NHs {
			if m.Tab[Key{NI: e.Key.NI, Kind: KNH, ID: nh}] == nil {
				return false
			}
		}
		return true
	default:
		return m.Tab[Key{NI: e.NHGNI, Kind: KNHG, ID: e.NHG}] != nil
	}
}

// Referrers returns the keys of installed entries that reference k (a group or a next-hop).
func (m *Model) Referrers(k Key) []Key {
	var out []Key
	for _, e := range m.Tab {
		switch k.Kind {
		case KNHG:
			if (e.Key.Kind == KV4 || e.Key.Kind == KV6 || e.Key.Kind == KMPLS) && e.NHGNI == k.NI && e.NHG == k.ID {
				out = append(out, e.Key)
			}
		case KNH:
			if e.Key.Kind == KNHG && e.Key.NI == k.NI {
				for _, nh := range e.NHs {
					if nh == k.ID {
						out = append(out, e.Key)
					}
				}
			}
		}
	}
	sort.Slice(out, func(i, j int) bool { return out[i].String() < out[j].String() })
	return out
}

// Verdict the model expects for processing op now.
type Verdict int

const (
	VProgram Verdict = iota // must be acknowledged as programmed now
	VFail                   // must be answered FAILED (or a clean RPC error)
	VHold                   // must be held without an answer
	VEither                 // unspecified: may fail or be programmed
)

func (v Verdict) String() string { return [...]string{"program", "fail", "hold", "either"}[v] }

// Expect returns the verdict for an operation that passed election checks.
func (m *Model) Expect(op *spb.AFTOperation) (Verdict, *Entry, string) {
	val, e, why := m.Analyse(op)
	switch val {
	case Invalid:
		return VFail, e, why
	case Unspecified:
		return VEither, e, why
	}
	switch op.GetOp() {
	case spb.AFTOperation_DELETE:
		if e.Key.Kind == KNHG || e.Key.Kind == KNH {
			// (an entry whose content is not predicted may reference it - but only an entry of a kind that can:
			// next-hops are referenced by groups, groups by prefix / label entries and, as backups, by groups)
			for _, x := range m.Tab {
				if x.Loose && (x.Key.Kind == KNHG || (e.Key.Kind == KNHG && x.Key.Kind != KNH)) {
					return VEither, e, "an entry of unpredicted content may reference it"
				}
			}
			if m.Tab[e.Key] != nil {
				if refs := m.Referrers(e.Key); len(refs) > 0 {
					return VFail, e, fmt.Sprintf("referenced by %v", refs)
				}
			}
		}
		return VProgram, e, ""
	case spb.AFTOperation_REPLACE:
		if m.Tab[e.Key] == nil {
			return VFail, e, "replace of missing entry"
		}
	}
	if m.Resolvable(e) {
		return VProgram, e, ""
	}
	if m.FwdRefs {
		return VHold, e, "unresolved reference"
	}
	return VFail, e, "unresolved reference, forward references disallowed"
}

// Apply installs/removes the entry of an acknowledged operation.
func (m *Model) Apply(op *spb.AFTOperation, e *Entry) {
	if op.GetOp() == spb.AFTOperation_DELETE {
		delete(m.Tab, e.Key)
		return
	}
	c := *e
	c.Msg = proto.Clone(e.Msg)
	m.Tab[e.Key] = &c
}

// Flush removes every entry of the named network instances.
func (m *Model) Flush(nis []string) {
	for k := range m.Tab {
		for _, n := range nis {
			if k.NI == n {
				delete(m.Tab, k)
			}
		}
	}
}

// Keys returns the installed keys in canonical order.
func (m *Model) Keys() []Key {
	var ks []Key
	for k := range m.Tab {
		ks = append(ks, k)
	}
	sortKeys(ks)
	return ks
}

func sortKeys(ks []Key) {
	sort.Slice(ks, func(i, j int) bool { return ks[i].String() < ks[j].String() })
}

// Dangling lists installed entries whose references do not resolve.
func (m *Model) Dangling() []Key {
	var out []Key
	for _, e := range m.Tab {
		if !m.Resolvable(e) {
			out = append(out, e.Key)
		}
	}
	sortKeys(out)
	return out
}

// StateHash summarises the model state (for the distinct-states metric).
func (m *Model) StateHash() uint64 {
	h := uint64(14695981039346656037)
	for _, k := range m.Keys() {
		b, _ := proto.MarshalOptions{Deterministic: true}.Marshal(m.Tab[k].Msg)
		for _, c := range []byte(k.String()) {
			h = (h ^ uint64(c)) * 1099511628211
		}
		for _, c := range b {
			h = (h ^ uint64(c)) * 1099511628211
		}
	}
	return h
}

func (m *Model) SortedNIs() []string {
	var out []string
	for n := range m.NIs {
		out = append(out, n)
	}
	sort.Strings(out)
	return out
}

// Clone returns an independent copy (entries themselves are immutable).
func (m *Model) Clone() *Model {
	c := &Model{Default: m.Default, NIs: m.NIs, Tab: make(map[Key]*Entry, len(m.Tab)), FwdRefs: m.FwdRefs}
	for k, v := range m.Tab {
		c.Tab[k] = v
	}
	return c
}
