package harness

import (
	"fmt"
	"os"
	"reflect"
	"sort"
	"strings"
	"time"

	aftpb "github.com/openconfig/gribi/v1/proto/gribi_aft"
	spb "github.com/openconfig/gribi/v1/proto/service"
	"github.com/openconfig/gribigo/constants"
	"github.com/openconfig/gribigo/rib"
	"github.com/openconfig/gribigo/server"
	"github.com/openconfig/ygot/ygot"
	"google.golang.org/grpc/codes"
	"google.golang.org/grpc/status"
	"google.golang.org/protobuf/proto"

	"verifsim/simnet"
	"verifsim/simrt"
)

// Violation is one oracle failure. Sig is a stable signature: two violations
// with the same Prop/Class/Sig are "the same" for shrinking and for the
// known-findings file.
type Violation struct {
	Prop   string `json:"property"`
	Class  string `json:"class"`
	Sig    string `json:"sig"`
	Detail string `json:"detail"`
	Step   int    `json:"step"`
	Known  string `json:"known,omitempty"`
}

func (v Violation) Key() string { return v.Prop + "/" + v.Class + "/" + v.Sig }

type abortRun struct{}

type opState int

const (
	opSent opState = iota
	opHeld
	opProgrammed
	opFailed
)

type opRec struct {
	op    *spb.AFTOperation
	sess  int
	state opState
	rib   int
	fib   int
	fails int
	// wasHeld: the operation was at some point held for an unresolved reference.
	wasHeld bool
	// unacked: resolved (applied or dropped) without a result because its stream died.
	unacked bool
	seq     int
	// electionFail: FAILED while the session may not have been the primary (concurrent families)
	electionFail bool
	// pos: position of the operation among the operations sent on its session by env.modify
	pos int
}

type session struct {
	idx     int
	mc      *simnet.ModifyClient
	elec    [2]uint64 // high, low
	fibAck  bool
	sent    map[uint64]*opRec
	results int
	dead    bool
	termErr error
	closed  bool
	// last election id reported by the server on this stream
	lastReported *spb.Uint128
	// responses collected by a concurrently running client task, replayed later
	pendingResp []*spb.ModifyResponse
	announced   [][2]uint64
	termChecked bool
	// opOrder: ids of the operations sent through env.modify, in send order; opResp: operation responses seen.
	// A server that answers every operation with one ModifyResponse of its own (possibly without results, when
	// the operation is held), in order, lets the k-th such response be attributed to the k-th operation: it can
	// only carry results of operations received before it. That is a trait of an implementation, not something
	// the properties demand (a server may merge or split responses), so it is used only while it is borne out:
	// every batch of responses must contain exactly as many operation responses as operations are awaiting
	// one, and each must fit; otherwise it is given up for the session (alignLost). It is used only to tell
	// apart two operations that share an id (env.shadow).
	opOrder   []uint64
	opResp    int
	alignLost bool
}

// sharePlan: for an id used both by the stream's own operation and by a still-held operation of an earlier
// session, how many of the verdicts (RIB_PROGRAMMED / FAILED) that arrive under it in the batch of responses
// being processed belong to each - as far as counting and the implementation's held set can tell.
type sharePlan struct{ own, shadow int }

// env is the state of one simulated run.
type env struct {
	sim   *simrt.Sim
	sc    *Scenario
	srv   *server.Server
	net   *simnet.Net
	model *Model
	sess  []*session
	known *KnownFindings
	viol  []Violation
	step  int

	opSeq  int
	allOps map[uint64]*opRec // by id, across sessions (ids are unique per run unless a family says otherwise)
	// shadow: operations still held for an EARLIER session whose id a later session has used again (a new
	// client numbers its operations from 1). Their session lost the primary role, so they need not be
	// answered and the implementation may keep or drop them; if one resolves, its result arrives on the
	// current primary's stream under an id that stream also uses (known finding KF-C06-1).
	shadow map[uint64]*opRec
	// noAlign: the responses being processed are a re-presentation by the harness itself (see postpone): they
	// say nothing about how the server pairs responses with operations
	noAlign bool
	// primarySess: in the sequential families, the session that is the primary (the latest announcer of the highest id)
	primarySess  int
	primaryKnown bool
	// postpone: when set, successes whose references are not acknowledged yet are collected here instead of
	// being judged (results for them may be waiting on another session's stream)
	postpone *[]*spb.AFTResult
	// altPayload: see reportDiffs; ambigKeys: keys for which every writer of the current batch is an alternative
	altPayload map[Key][]proto.Message
	ambigKeys  map[Key]bool
	// lostRole: sessions that may have lost the primary role at some instant of a concurrent run (set by the
	// concurrent families for their final checks only)
	lostRole map[int]bool
	curTrig  int // position (session.opOrder) of the operation that triggered the response being processed, or -1
	plan     map[uint64]*sharePlan
	// invalidScenario: the scenario asks the harness' own client for something no client may do (see modify)
	invalidScenario bool
	perNIFlush      bool
	maxElec         [2]uint64
	modelStates     map[uint64]bool
	hookFold        map[string]Snapshot // C16: fold of post-change notifications per NI
	hookErr         []string
	resolvedCalls   int
	noKnownSoft     bool
	collecting      int
	pendingAbort    bool
	// propOverride: attribute every violation to this property (families whose
	// property subsumes the others', e.g. C11 "... the installed entries are exactly those acknowledged").
	propOverride string
	// standbySessions: idle sessions the family keeps connected on purpose (session-footprint checks)
	standbySessions int
	// invalidKeys: keys named by the invalid operations of the request being checked (C12: no effect)
	invalidKeys map[Key]string
	// snapCache: the implementation snapshot taken once per quiescent-point batch
	snapCache   Snapshot
	snapCacheOK bool
	// failStates: the model states one response passes through (see processResults)
	failStates []*Model
	// onResult, when set, runs after every single result has been folded into the model
	onResult func()
}

func (e *env) probe(name string) { e.sim.Probe(name) }

// report records a violation. Violations matching a known finding are kept
// but do not abort the run when the caller can resynchronise (soft=true).
// Inside a checkpoint (a batch of independent checks at one quiescent point)
// every check runs and the run is aborted at the end of the batch.
func (e *env) report(prop, class, sig, detail string, soft bool) {
	if e.propOverride != "" {
		class = prop + "-" + class
		prop = e.propOverride
	}
	v := Violation{Prop: prop, Class: class, Sig: sig, Detail: detail, Step: e.step}
	if e.known != nil {
		v.Known = e.known.Match(v)
	}
	e.viol = append(e.viol, v)
	e.sim.Log("violation", v.Key())
	if v.Known != "" && soft && !e.noKnownSoft {
		return
	}
	if e.collecting > 0 {
		e.pendingAbort = true
		return
	}
	panic(abortRun{})
}

// checkpoint runs independent checks; all of them report before the run stops.
func (e *env) checkpoint(f func()) {
	e.collecting++
	f()
	e.collecting--
	if e.collecting == 0 && e.pendingAbort {
		panic(abortRun{})
	}
}

func newServer(cfg *ScenCfg, e *env) *server.Server {
	var opts []server.ServerOpt
	if !cfg.FwdRefs {
		opts = append(opts, server.WithNoRIBForwardReferences())
	}
	if cfg.Hooks != "" {
		opts = append(opts, server.WithPostChangeRIBHook(e.postChangeHook))
		if cfg.Hooks == "both" {
			opts = append(opts, server.WithRIBResolvedEntryHook(e.resolvedHook))
		}
	}
	if cfg.VRFMode != "late" && len(cfg.VRFs) > 0 {
		opts = append(opts, server.WithVRFs(cfg.VRFs))
	}
	s, err := server.New(opts...)
	if err != nil {
		panic(fmt.Sprintf("server.New: %v", err))
	}
	if cfg.VRFMode == "late" {
		for _, v := range cfg.VRFs {
			if err := s.AddNetworkInstance(v); err != nil {
				panic(err)
			}
		}
	}
	return s
}

func policyOf(cfg *ScenCfg) (simrt.Policy, int) {
	switch cfg.Policy {
	case "corelease":
		return simrt.Coarse, -1
	case "fifo":
		return simrt.FIFO, 0
	case "fine":
		return simrt.Fine, 0
	case "pct":
		d := cfg.PCTDepth
		if d == 0 {
			d = 2
		}
		return simrt.PCT, d
	}
	return simrt.Coarse, 0
}

func uint128(hl [2]uint64) *spb.Uint128 { return &spb.Uint128{High: hl[0], Low: hl[1]} }

func less128(a, b [2]uint64) bool { return a[0] < b[0] || (a[0] == b[0] && a[1] < b[1]) }

// openSession opens a Modify stream, negotiates SINGLE_PRIMARY/PRESERVE and
// announces elec. It checks the two responses.
func (e *env) openSession(elec [2]uint64, fib bool) *session {
	s := &session{idx: len(e.sess), elec: elec, fibAck: fib, sent: map[uint64]*opRec{}}
	s.mc = e.net.OpenModify()
	e.sess = append(e.sess, s)
	ack := spb.SessionParameters_RIB_ACK
	if fib {
		ack = spb.SessionParameters_RIB_AND_FIB_ACK
	}
	s.mc.Send(&spb.ModifyRequest{Params: &spb.SessionParameters{Redundancy: spb.SessionParameters_SINGLE_PRIMARY, Persistence: spb.SessionParameters_PRESERVE, AckType: ack}})
	s.mc.Send(&spb.ModifyRequest{ElectionId: uint128(elec)})
	simrt.AwaitQuiescence("openSession")
	rs, term := e.drain(s)
	if term != nil || len(rs) != 2 {
		e.report("C09", "negotiation-failed", "valid params+election rejected", fmt.Sprintf("session %d: responses=%d term=%v", s.idx, len(rs), term), false)
	}
	if rs[0].GetSessionParamsResult().GetStatus() != spb.SessionParametersResult_OK {
		e.report("C09", "negotiation-failed", "params not OK", fmt.Sprint(rs[0]), false)
	}
	if less128(e.maxElec, elec) || e.maxElec == elec {
		e.maxElec = elec
		e.primarySess, e.primaryKnown = s.idx, true // (the latest announcer of the highest id; a tie moves the role)
	}
	got := rs[1].GetElectionId()
	if got == nil || got.High != e.maxElec[0] || got.Low != e.maxElec[1] {
		e.report("C05", "reported-id-not-max", "election response", fmt.Sprintf("announced %v, maximum so far %v, server reported %v", elec, e.maxElec, got), false)
	}
	return s
}

// drain reads everything the server has to say up to the next quiescent point:
// with a finite flow-control window the server may be blocked in Send, so it
// alternates between reading and waiting for quiescence until nothing more
// arrives. If the RPC ended it returns the terminal error (io.EOF for OK).
func (e *env) drain(s *session) ([]*spb.ModifyResponse, error) {
	var out []*spb.ModifyResponse
	for {
		n := 0
		for {
			r, err, ok := s.mc.TryRecv()
			if !ok {
				break
			}
			if err != nil {
				s.dead = true
				s.termErr = err
				return out, err
			}
			out = append(out, r)
			n++
		}
		if n == 0 {
			return out, nil
		}
		simrt.AwaitQuiescence("drain")
	}
}

// ---------------------------------------------------------------------------
// result oracle (C01/C02/C03/C06/C12 classes)

func describeOp(op *spb.AFTOperation) string {
	_, en, _ := (&Model{NIs: map[string]bool{op.GetNetworkInstance(): true}}).Analyse(op)
	k := "?"
	if en != nil {
		k = en.Key.String()
	}
	return fmt.Sprintf("%s %s (id %d)", op.GetOp(), k, op.GetId())
}

func kindSig(op *spb.AFTOperation) string {
	switch op.GetEntry().(type) {
	case *spb.AFTOperation_NextHop:
		return "nh"
	case *spb.AFTOperation_NextHopGroup:
		return "nhg"
	case *spb.AFTOperation_Ipv4:
		return "ipv4"
	case *spb.AFTOperation_Ipv6:
		return "ipv6"
	case *spb.AFTOperation_Mpls:
		return "mpls"
	}
	return "none"
}

// processResults replays the results of one stream in acknowledgement order.
func (e *env) processResults(s *session, rs []*spb.ModifyResponse) {
	nOpResp := 0
	for _, r := range rs {
		if r.GetSessionParamsResult() == nil && r.GetElectionId() == nil {
			nOpResp++
		}
	}
	if len(s.opOrder) > 0 && !s.alignLost && !e.noAlign && nOpResp != len(s.opOrder)-s.opResp {
		s.alignLost = true
		if nOpResp > 0 {
			e.probe("responses and operations do not pair up one to one (merged, split or cut short)")
		}
	}
	e.plan = e.planShared(s, rs)
	defer func() { e.plan = nil }()
	for _, r := range rs {
		if r.GetSessionParamsResult() != nil || r.GetElectionId() != nil {
			if r.GetElectionId() != nil {
				s.lastReported = r.GetElectionId()
			}
			continue
		}
		// The server lists a response's successes before its failures, whatever order
		// they happened in (a held operation may have failed on retry before a later one
		// was installed): a FAILED verdict is judged against every model state the
		// response passes through, the others strictly in order.
		e.curTrig = -1
		if len(s.opOrder) > 0 && !s.alignLost && !e.noAlign {
			if s.opResp < len(s.opOrder) {
				fits := len(r.GetResult()) == 0
				for _, res := range r.GetResult() {
					if res.GetId() == s.opOrder[s.opResp] {
						fits = true
					}
				}
				if fits {
					e.curTrig = s.opResp
				} else {
					s.alignLost = true
				}
			} else {
				s.alignLost = true
			}
			s.opResp++
		}
		// (a server that does not answer operation by operation - responses merged or split, see alignLost - may
		// deliver the FAILED of a cascade in a later message than its successes: there the states of the earlier
		// messages of this batch stay admissible; on a server that does, each response is judged on its own)
		if e.failStates == nil || !s.alignLost || len(e.failStates) > 256 {
			e.failStates = []*Model{e.model.Clone()}
		}
		var fails, succ []*spb.AFTResult
		for _, res := range r.GetResult() {
			if res.GetStatus() == spb.AFTResult_FAILED {
				fails = append(fails, res)
				continue
			}
			succ = append(succ, res)
		}
		// Everything one message acknowledges is installed when the message is sent; the ORDER of the results
		// inside it is the server's business (the tree lists them as installed, another server may sort them by
		// id). A success whose references are not there yet is therefore looked at again after the others of
		// the same message - together with every later result for the same key, whose order among themselves
		// is the only thing that tells which payload won.
		for pass := 0; len(succ) > 0; pass++ {
			var deferred []*spb.AFTResult
			defID, defKey := map[uint64]bool{}, map[Key]bool{}
			progress := false
			for _, res := range succ {
				rec := s.sent[res.GetId()]
				if rec == nil {
					rec = e.allOps[res.GetId()]
				}
				var key *Key
				if rec != nil {
					if _, en, _ := e.model.Analyse(rec.op); en != nil {
						k := en.Key
						key = &k
					}
				}
				hold := defID[res.GetId()] || (key != nil && defKey[*key])
				if canNow := false; !hold && pass < 8 && res.GetStatus() == spb.AFTResult_RIB_PROGRAMMED {
					// (whichever operation the id stands for: this stream's own, another session's held one, or
					// one shadowed by a later use of the id)
					for _, c := range []*opRec{s.sent[res.GetId()], e.allOps[res.GetId()], e.shadow[res.GetId()]} {
						if c == nil || (c.state != opSent && c.state != opHeld) {
							continue
						}
						if c.op.GetOp() == spb.AFTOperation_DELETE {
							canNow = true // (a DELETE needs nothing to resolve: the result may be its own as things are)
							continue
						}
						switch v, _, _ := e.model.Expect(c.op); v {
						case VHold:
							hold = true
							if _, en, _ := e.model.Analyse(c.op); en != nil {
								k := en.Key
								key = &k
							}
						case VProgram, VEither:
							canNow = true
						}
					}
					if canNow {
						hold = false // one of the operations the id may stand for can be acknowledged as things are
					}
				}
				if hold {
					deferred = append(deferred, res)
					defID[res.GetId()] = true
					if key != nil {
						defKey[*key] = true
					}
					continue
				}
				progress = true
				e.oneResult(s, res)
				if res.GetStatus() == spb.AFTResult_RIB_PROGRAMMED {
					e.failStates = append(e.failStates, e.model.Clone())
				}
				if e.onResult != nil {
					e.onResult()
				}
			}
			if len(deferred) > 0 && progress {
				e.probe("results of one response listed in another order than their references resolve")
			}
			if !progress && e.postpone != nil && pass < 8 {
				// their references may be acknowledged on another stream that is read next (see modify)
				*e.postpone = append(*e.postpone, deferred...)
				break
			}
			if !progress {
				pass = 8 // nothing else can help: judge the rest as they come
			}
			succ = deferred
		}
		for _, res := range fails {
			e.oneResult(s, res)
			if e.onResult != nil {
				e.onResult()
			}
		}
		if !s.alignLost {
			e.failStates = nil
		}
	}
	e.failStates = nil
}

func (e *env) oneResult(s *session, res *spb.AFTResult) {
	rec := s.sent[res.GetId()]
	if fn := os.Getenv("VERIF_DEBUG_HOOKS"); fn != "" {
		if f, err := os.OpenFile(fn, os.O_APPEND|os.O_CREATE|os.O_WRONLY, 0o644); err == nil {
			fmt.Fprintf(f, "RESULT step %d sess %d id %d %s own=%v shadow=%v plan=%+v alignLost=%v curTrig=%d\n", e.step, s.idx, res.GetId(), res.GetStatus(), rec != nil, e.shadow[res.GetId()] != nil, e.plan[res.GetId()], s.alignLost, e.curTrig)
			f.Close()
		}
	}
	if os.Getenv("VERIF_DEBUG") != "" {
		fmt.Fprintf(os.Stderr, "DBG step %d sess %d result id %d %s own=%v\n", e.step, s.idx, res.GetId(), res.GetStatus(), rec != nil)
	}
	if sh := e.shadow[res.GetId()]; rec != nil && sh != nil && e.resultIsForShadow(rec, sh, res) {
		e.probe("held operation of an earlier session answered under an id the current session uses too")
		e.report("C06", "foreign-result", fmt.Sprintf("result for held operation of another session (reused id, %s)", res.GetStatus()),
			fmt.Sprintf("stream of session %d carried %s for id %d; its own operation with that id (%s) was already answered or cannot be meant, and session %d still had %s held under the same id",
				s.idx, res.GetStatus(), res.GetId(), describeOp(rec.op), sh.sess, describeOp(sh.op)), true)
		e.applyVerdict(sh, res, true)
		return
	}
	if rec == nil {
		other := e.allOps[res.GetId()]
		if sh := e.shadow[res.GetId()]; sh != nil {
			// the id was used again by an intermediate session: which of the two earlier operations is meant?
			live := func(r *opRec) bool { return r != nil && (r.state == opHeld || r.state == opSent) }
			fibOwed := func(r *opRec) bool {
				return r != nil && r.state == opProgrammed && r.fib == 0 && e.sess[r.sess].fibAck
			}
			switch res.GetStatus() {
			case spb.AFTResult_FIB_PROGRAMMED:
				if !fibOwed(other) && fibOwed(sh) {
					other = sh
				}
			default:
				if !live(other) && live(sh) {
					other = sh
				} else if live(other) && live(sh) {
					// both still unanswered: the one the model can account for
					vo, _, _ := e.model.Expect(other.op)
					vs, _, _ := e.model.Expect(sh.op)
					okFor := func(v Verdict) bool {
						if res.GetStatus() == spb.AFTResult_FAILED {
							return v == VFail || v == VEither
						}
						return v == VProgram || v == VEither
					}
					if !okFor(vo) && okFor(vs) {
						other = sh
					}
				}
			}
		}
		if other != nil {
			if os.Getenv("VERIF_DEBUG") != "" {
				_, inSh := e.shadow[res.GetId()]
				fmt.Fprintf(os.Stderr, "DBG   foreign id %d -> rec of sess %d state %d rib %d fib %d (shadow entry %v) %s\n", res.GetId(), other.sess, other.state, other.rib, other.fib, inSh, describeOp(other.op))
			}
			what := "unanswered operation"
			if other.state == opHeld || other.wasHeld {
				what = "held operation"
			}
			e.probe("held operation of another session answered on this stream")
			e.report("C06", "foreign-result", fmt.Sprintf("result for %s of another session (%s)", what, res.GetStatus()),
				fmt.Sprintf("stream of session %d carried %s for id %d, which was sent on session %d: %s", s.idx, res.GetStatus(), res.GetId(), other.sess, describeOp(other.op)), true)
			// resynchronise: the operation did take effect / fail.
			e.applyVerdict(other, res, true)
			return
		}
		e.report("C06", "unknown-result", "result for an id never sent", fmt.Sprintf("session %d: %v", s.idx, res), false)
		return
	}
	e.applyVerdict(rec, res, false)
}

// implHeldIDs returns the ids of the operations the implementation holds (hook), leaving out operations
// of earlier sessions that are shadowed by a later use of their id (they may be kept or dropped), and
// forgets the shadowed operations the implementation no longer holds. Which of two same-id operations
// is held is told apart by content.
func (e *env) implHeldIDs() []uint64 {
	var out []uint64
	if os.Getenv("VERIF_DEBUG") != "" {
		var ids []uint64
		for _, p := range e.srv.VerifRIB().VerifPending() {
			ids = append(ids, p.ID)
		}
		fmt.Fprintf(os.Stderr, "DBG step %d impl pending %v\n", e.step, ids)
	}
	seen := map[uint64]bool{}
	for _, p := range e.srv.VerifRIB().VerifPending() {
		cur := e.allOps[p.ID]
		if sh := e.shadow[p.ID]; sh != nil && (cur == nil || !proto.Equal(cur.op, p.Op)) && proto.Equal(sh.op, p.Op) {
			seen[p.ID] = true
			continue
		}
		out = append(out, p.ID)
	}
	for id, sh := range e.shadow {
		if !seen[id] && (sh.state == opHeld || sh.state == opSent) {
			delete(e.shadow, id) // dropped by the implementation (its session lost the primary role: legitimate)
		}
	}
	return out
}

// planShared counts, for every id of the batch that an earlier session's held operation shares with one of
// this stream's own operations, the verdicts that arrive under it, and splits them: the stream's own operation
// receives exactly one unless it is already answered or the implementation (still) holds it at the end of the
// batch; the rest can only be the earlier operation's.
func (e *env) planShared(s *session, rs []*spb.ModifyResponse) map[uint64]*sharePlan {
	if len(e.shadow) == 0 {
		return nil
	}
	n := map[uint64]int{}
	for _, r := range rs {
		for _, res := range r.GetResult() {
			if st := res.GetStatus(); st == spb.AFTResult_RIB_PROGRAMMED || st == spb.AFTResult_FAILED {
				if e.shadow[res.GetId()] != nil && s.sent[res.GetId()] != nil {
					n[res.GetId()]++
				}
			}
		}
	}
	if len(n) == 0 {
		return nil
	}
	pend := e.srv.VerifRIB().VerifPending()
	out := map[uint64]*sharePlan{}
	for id, cnt := range n {
		own := s.sent[id]
		ownHeld := false
		for _, p := range pend {
			if p.ID == id && proto.Equal(p.Op, own.op) {
				ownHeld = true
			}
		}
		pl := &sharePlan{}
		if (own.state == opSent || own.state == opHeld) && !ownHeld {
			pl.own = 1
		}
		if pl.own > cnt {
			pl.own = cnt
		}
		pl.shadow = cnt - pl.own
		out[id] = pl
	}
	return out
}

// resultIsForShadow decides whether a result that arrived under an id used both by the stream's own
// operation own and by a still-held operation sh of an earlier session belongs to the latter.
func (e *env) resultIsForShadow(own, sh *opRec, res *spb.AFTResult) bool {
	ownTerminal := own.state == opProgrammed || own.state == opFailed
	shLive := sh.state == opHeld || sh.state == opSent
	if e.curTrig >= 0 && own.pos > e.curTrig {
		// the response was triggered by an operation sent BEFORE the stream's own operation with this id:
		// the server has not even looked at that one yet
		return shLive || (sh.state == opProgrammed && res.GetStatus() == spb.AFTResult_FIB_PROGRAMMED && sh.fib == 0)
	}
	if pl := e.plan[res.GetId()]; pl != nil && res.GetStatus() != spb.AFTResult_FIB_PROGRAMMED {
		// counting settles it when all verdicts under this id belong to one of the two
		switch {
		case pl.shadow == 0 && pl.own > 0:
			pl.own--
			return false
		case pl.own == 0 && pl.shadow > 0 && shLive:
			pl.shadow--
			return true
		}
		// both will be answered in this batch, and which of the two verdicts under the shared id is whose cannot
		// be told from the outside: the position of each operation among the other writers of its key in this
		// batch is open, so whichever of them wrote last may be what stays installed
		for _, o := range []*opRec{own, sh} {
			if _, en, _ := e.model.Analyse(o.op); en != nil && en.Msg != nil {
				if e.altPayload == nil {
					e.altPayload = map[Key][]proto.Message{}
				}
				if e.ambigKeys == nil {
					e.ambigKeys = map[Key]bool{}
				}
				e.ambigKeys[en.Key] = true
				if cur := e.model.Tab[en.Key]; cur != nil && cur.Msg != nil {
					e.altPayload[en.Key] = append(e.altPayload[en.Key], cur.Msg)
				}
				if o.op.GetOp() != spb.AFTOperation_DELETE {
					e.altPayload[en.Key] = append(e.altPayload[en.Key], en.Msg)
				}
			}
		}
		forShadow := e.shadowByContent(own, sh, res, ownTerminal, shLive)
		if forShadow && pl.shadow > 0 {
			pl.shadow--
		} else if !forShadow && pl.own > 0 {
			pl.own--
		}
		return forShadow
	}
	return e.shadowByContent(own, sh, res, ownTerminal, shLive)
}

func (e *env) shadowByContent(own, sh *opRec, res *spb.AFTResult, ownTerminal, shLive bool) bool {
	switch res.GetStatus() {
	case spb.AFTResult_FIB_PROGRAMMED:
		if own.state == opProgrammed && own.fib == 0 {
			return false
		}
		return sh.state == opProgrammed && sh.fib == 0
	case spb.AFTResult_RIB_PROGRAMMED:
		if ownTerminal {
			return shLive
		}
		if v, _, _ := e.model.Expect(own.op); v == VProgram || v == VEither {
			return false
		}
		v, _, _ := e.model.Expect(sh.op)
		return shLive && v == VProgram
	case spb.AFTResult_FAILED:
		if ownTerminal {
			return shLive
		}
		if v, _, _ := e.model.Expect(own.op); v == VFail || v == VEither {
			return false
		}
		// the stream's own operation must not fail; the earlier one may (e.g. a held REPLACE whose target is gone)
		v, _, _ := e.model.Expect(sh.op)
		for _, st := range e.failStates {
			if v2, _, _ := st.Expect(sh.op); v2 == VFail || v2 == VEither {
				v = v2
				break
			}
		}
		return shLive && (v == VFail || v == VEither)
	}
	return false
}

func (e *env) applyVerdict(rec *opRec, res *spb.AFTResult, foreign bool) {
	op := rec.op
	switch res.GetStatus() {
	case spb.AFTResult_RIB_PROGRAMMED:
		if rec.state == opProgrammed {
			e.report("C06", "duplicate-result", "RIB_PROGRAMMED twice", describeOp(op), false)
		}
		if rec.state == opFailed {
			e.report("C06", "conflicting-results", "RIB_PROGRAMMED after FAILED", describeOp(op), false)
		}
		v, en, why := e.model.Expect(op)
		switch v {
		case VProgram, VEither:
		case VHold:
			e.report("C02", "ack-unresolved", kindSig(op)+" acknowledged while a reference is missing", describeOp(op)+": "+why, false)
		case VFail:
			switch {
			case strings.HasPrefix(why, "referenced by"):
				e.report("C03", "delete-of-referenced-succeeded", kindSig(op), describeOp(op)+": "+why, false)
			case why == "replace of missing entry":
				e.report("C01", "replace-of-missing-succeeded", kindSig(op), describeOp(op), false)
			case strings.HasPrefix(why, "unresolved reference"):
				e.report("C02", "ack-unresolved", kindSig(op)+" acknowledged while a reference is missing (forward references disallowed)", describeOp(op), false)
			default:
				e.report("C12", "invalid-accepted", why, describeOp(op), false)
			}
		}
		if en == nil {
			e.report("C12", "invalid-accepted", "operation without a key acknowledged", describeOp(op), false)
		}
		if rec.state == opHeld {
			e.probe("held operation resolved later")
		}
		if v == VEither && en != nil {
			e.probe("operation of unspecified validity was programmed")
			en.Loose = op.GetOp() != spb.AFTOperation_DELETE
		}
		if en == nil {
			return
		}
		if e.ambigKeys[en.Key] && en.Msg != nil && op.GetOp() != spb.AFTOperation_DELETE {
			e.altPayload[en.Key] = append(e.altPayload[en.Key], en.Msg)
		}
		e.model.Apply(op, en)
		rec.state = opProgrammed
		rec.rib++
	case spb.AFTResult_FIB_PROGRAMMED:
		if rec.state != opProgrammed {
			e.report("C06", "fib-before-rib", "FIB_PROGRAMMED without preceding RIB_PROGRAMMED", describeOp(op), false)
		}
		if rec.fib > 0 {
			e.report("C06", "duplicate-result", "FIB_PROGRAMMED twice", describeOp(op), false)
		}
		if !e.sess[rec.sess].fibAck {
			e.report("C06", "unrequested-fib-ack", "FIB_PROGRAMMED on a RIB_ACK session", describeOp(op), false)
		}
		rec.fib++
	case spb.AFTResult_FAILED:
		if rec.state == opFailed {
			sig := "FAILED twice"
			if rec.op.GetNetworkInstance() == "" {
				sig = "FAILED twice for an operation with an empty network instance"
			}
			e.report("C06", "duplicate-result", sig, describeOp(op), true)
			return
		}
		if rec.state == opProgrammed {
			e.report("C06", "conflicting-results", "FAILED after RIB_PROGRAMMED", describeOp(op), false)
		}
		if st := op.GetElectionId(); st != nil && less128([2]uint64{st.High, st.Low}, e.maxElec) {
			// stamped with an id below the highest one announced (e.g. a script session that
			// announced less than an earlier probe session had): rejected by admission, whatever its content
			e.probe("operation stamped with a superseded election id rejected")
			rec.state = opFailed
			rec.fails++
			return
		}
		v, _, why := e.model.Expect(op)
		for _, st := range e.failStates {
			if v2, _, why2 := st.Expect(op); v2 == VFail || v2 == VEither {
				v, why = v2, why2
				break
			}
		}
		switch v {
		case VFail, VEither:
			if rec.state == opHeld {
				e.probe("held operation failed on retry")
			}
			if v == VEither {
				e.probe("operation of unspecified validity was rejected")
			} else if rec.state != opHeld {
				e.probe("invalid operation rejected in-band")
			}
		case VProgram:
			if op.GetOp() == spb.AFTOperation_DELETE {
				e.checkpoint(func() {
					switch kindSig(op) {
					case "nh", "nhg":
						e.report("C03", "delete-failed-without-referrer", kindSig(op), describeOp(op)+" "+res.GetErrorDetails().GetErrorMessage(), false)
					}
					// DELETE removes only the named key and is idempotent (C01)
					e.report("C01", "delete-failed", kindSig(op)+" DELETE answered FAILED although nothing forbids it", describeOp(op)+" "+res.GetErrorDetails().GetErrorMessage(), false)
				})
			}
			e.report("C02", "resolvable-failed", kindSig(op)+" "+op.GetOp().String()+" answered FAILED although valid and resolvable", describeOp(op)+" "+res.GetErrorDetails().GetErrorMessage(), false)
		case VHold:
			e.report("C02", "held-failed", kindSig(op)+" answered FAILED although forward references are allowed", describeOp(op)+": "+why+" / "+res.GetErrorDetails().GetErrorMessage(), false)
		}
		rec.state = opFailed
		rec.fails++
	default:
		e.report("C06", "bad-status", res.GetStatus().String(), describeOp(op), false)
	}
}

// discarded: rec is held for a session that has gone or lost the primary role and the server does not hold it
// (any more). Nothing obliges a server to keep such an operation (C06: "unless ... the stream ended, or its
// session lost the primary role"); one that discards it is followed - the operation will never resolve.
func (e *env) discarded(rec *opRec, implHolds map[uint64]bool) bool {
	if rec.state != opHeld || implHolds[rec.op.GetId()] || !e.sessionGone(rec) {
		return false
	}
	// (whatever the model would say about it now: a server may discard it at the hand-over, or later when it
	// next walks what it holds - by then the references may well resolve; if it was installed without an
	// answer instead, the comparison of the installed entries says so)
	e.probe("held operation of a departed or superseded session discarded by the server")
	rec.state, rec.unacked = opFailed, true
	return true
}

// sessionGone: the session that sent rec has ended or lost the primary role.
func (e *env) sessionGone(rec *opRec) bool {
	rs := e.sess[rec.sess]
	if e.primaryKnown && e.sc.Family == "g1" {
		return rs.dead || rs.closed || rec.sess != e.primarySess
	}
	return rs.dead || rs.closed || rs.elec != e.maxElec || e.lostRole[rec.sess]
}

// followDiscards is called at a quiescent point BEFORE something is sent that might resolve what is held: what
// the server has discarded by then (see discarded) is no longer expected to resolve.
func (e *env) followDiscards() {
	var held []*opRec
	for _, rec := range e.allOps {
		if rec.state == opHeld {
			held = append(held, rec)
		}
	}
	for _, sh := range e.shadow {
		if sh.state == opHeld {
			held = append(held, sh)
		}
	}
	if len(held) == 0 {
		return
	}
	implHolds := map[uint64]bool{}
	for _, p := range e.srv.VerifRIB().VerifPending() {
		for _, rec := range held {
			if p.ID == rec.op.GetId() && proto.Equal(p.Op, rec.op) {
				implHolds[p.ID] = true
			}
		}
	}
	sort.Slice(held, func(i, j int) bool { return held[i].seq < held[j].seq })
	for _, rec := range held {
		e.discarded(rec, implHolds)
	}
}

// afterQuiescence runs the checks that need an exact quiescent point.
func (e *env) afterQuiescence(s *session) {
	e.checkpoint(func() { e.afterQuiescenceChecks(s) })
}

func (e *env) afterQuiescenceChecks(s *session) {
	// operations without any result
	var ids []uint64
	for id := range e.allOps {
		ids = append(ids, id)
	}
	sort.Slice(ids, func(i, j int) bool { return ids[i] < ids[j] })
	var modelHeld []uint64
	var implHeld []uint64
	implHolds := map[uint64]bool{}
	for _, id := range e.implHeldIDs() {
		implHeld = append(implHeld, id)
		implHolds[id] = true
	}
	for _, id := range ids {
		rec := e.allOps[id]
		// (a stream that ended abnormally - an RPC error raised by a later message, or the client gone - owes
		// nothing more: "unless ... the stream ended"; a stream that ended cleanly has delivered everything)
		cut := e.sess[rec.sess].dead && (e.sess[rec.sess].termErr == nil || e.sess[rec.sess].termErr.Error() != "EOF")
		if rec.state == opProgrammed && e.sess[rec.sess].fibAck && rec.fib == 0 && !rec.unacked && !cut {
			e.report("C06", "missing-fib-ack", "RIB_PROGRAMMED without FIB_PROGRAMMED on a FIB-ack session", describeOp(rec.op), false)
		}
		if rec.state != opSent && rec.state != opHeld {
			continue
		}
		if e.sess[rec.sess].dead && rec.state == opSent {
			continue // stream ended: the operation may legitimately stay unanswered
		}
		if rec.state == opSent && !implHolds[id] && e.sessionGone(rec) && rec.op.GetOp() != spb.AFTOperation_DELETE && rec.op.GetNextHop() == nil {
			// (only an operation that CAN be held: a DELETE or a next-hop refers to nothing, no server ever holds
			// one, so "held for a while, then discarded at the hand-over" cannot explain a missing answer)
			// its session has lost the primary role: C06 owes it no answer, and a server that held it for a
			// while may have discarded it at the hand-over (if it was installed nevertheless, the comparison
			// of the installed entries says so)
			e.probe("unanswered operation of a superseded session, not held any more")
			rec.state, rec.unacked = opFailed, true
			continue
		}
		if e.discarded(rec, implHolds) {
			continue
		}
		v, _, why := e.model.Expect(rec.op)
		switch v {
		case VHold:
			if rec.state == opSent {
				e.probe("operation held for an unresolved reference")
			}
			rec.state = opHeld
			rec.wasHeld = true
			modelHeld = append(modelHeld, id)
		case VProgram:
			if rec.op.GetOp() != spb.AFTOperation_DELETE {
				e.report("C02", "resolvable-left-held", kindSig(rec.op)+" unanswered although resolvable", describeOp(rec.op), false)
			}
			e.report("C06", "unanswered", "valid, resolvable operation got no result", describeOp(rec.op), false)
		case VFail:
			if why == "replace of missing entry" && e.model.FwdRefs {
				if _, en, _ := e.model.Analyse(rec.op); en != nil && !e.model.Resolvable(en) {
					// it was held for an unresolved reference while its target existed, the
					// target was deleted since, and nothing has retried it yet: its
					// references still do not resolve, so it may stay held.
					rec.state = opHeld
					rec.wasHeld = true
					modelHeld = append(modelHeld, id)
					continue
				}
			}
			e.report("C06", "unanswered", "operation that must fail got no result", describeOp(rec.op)+": "+why, false)
			if val, _, _ := e.model.Analyse(rec.op); val == Invalid {
				sig := "invalid operation got no result"
				if implHolds[id] {
					sig = "invalid operation is held instead of being answered FAILED"
				}
				e.report("C12", "invalid-unanswered", sig, describeOp(rec.op)+": "+why, false)
			}
		case VEither:
			// An operation of unspecified validity that the implementation chose to accept is subject
			// to the forward-reference rule like any other: held while its references do not resolve.
			if _, en, _ := e.model.Analyse(rec.op); en != nil && e.model.FwdRefs && implHolds[id] && !e.model.Resolvable(en) {
				if rec.state == opSent {
					e.probe("operation of unspecified validity held for an unresolved reference")
				}
				rec.state = opHeld
				rec.wasHeld = true
				modelHeld = append(modelHeld, id)
				continue
			}
			e.report("C06", "unanswered", "operation got no result", describeOp(rec.op), false)
		}
	}
	// C02(b): held set seen through the hook equals the model's.
	if fmt.Sprint(implHeld) != fmt.Sprint(modelHeld) {
		extra := diffIDs(implHeld, modelHeld)
		sig := "held set differs"
		if len(extra) > 0 && len(diffIDs(modelHeld, implHeld)) == 0 {
			allFailed := true
			for _, id := range extra {
				if r := e.allOps[id]; r == nil || r.state != opFailed {
					allFailed = false
				}
			}
			if allFailed {
				sig = "operation answered FAILED is still held"
			}
		}
		e.report("C02", "held-set-mismatch", sig, fmt.Sprintf("implementation holds %v, model holds %v", implHeld, modelHeld), true)
	}
	e.snapCache = e.implSnapshot()
	e.snapCacheOK = e.snapCache != nil
	e.compareState("rib-contents")
	e.checkRefCounts("C03")
	e.snapCacheOK = false
	if !e.perNIFlush {
		if d := e.model.Dangling(); len(d) > 0 {
			e.report("C02", "dangling-reference", "installed entry references a missing entry", fmt.Sprint(d), false)
		}
	}
	e.checkHooks()
	e.modelStates[e.model.StateHash()] = true
}

// implDangling lists the installed entries (RIBContents) whose group / next-hops are not installed.
func (e *env) implDangling() []string {
	snap := e.implSnapshot()
	if snap == nil {
		return nil
	}
	var keys []Key
	for k := range snap {
		keys = append(keys, k)
	}
	sortKeys(keys)
	var out []string
	need := func(from Key, k Key) {
		if _, ok := snap[k]; !ok {
			out = append(out, fmt.Sprintf("%s -> %s", from, k))
		}
	}
	for _, k := range keys {
		switch t := snap[k].(type) {
		case *aftpb.Afts_NextHopGroupKey:
			for _, nh := range t.GetNextHopGroup().GetNextHop() {
				need(k, Key{NI: k.NI, Kind: KNH, ID: nh.GetIndex()})
			}
		case *aftpb.Afts_Ipv4EntryKey:
			need(k, Key{NI: orStr(t.GetIpv4Entry().GetNextHopGroupNetworkInstance().GetValue(), k.NI), Kind: KNHG, ID: t.GetIpv4Entry().GetNextHopGroup().GetValue()})
		case *aftpb.Afts_Ipv6EntryKey:
			need(k, Key{NI: orStr(t.GetIpv6Entry().GetNextHopGroupNetworkInstance().GetValue(), k.NI), Kind: KNHG, ID: t.GetIpv6Entry().GetNextHopGroup().GetValue()})
		case *aftpb.Afts_LabelEntryKey:
			need(k, Key{NI: orStr(t.GetLabelEntry().GetNextHopGroupNetworkInstance().GetValue(), k.NI), Kind: KNHG, ID: t.GetLabelEntry().GetNextHopGroup().GetValue()})
		}
	}
	return out
}

// implHeldResolvable lists the ADD operations the implementation still holds although everything they
// reference is installed (read from the implementation's own state through the hooks, no model involved).
func (e *env) implHeldResolvable() []string {
	snap := e.implSnapshot()
	if snap == nil {
		return nil
	}
	has := func(k Key) bool { _, ok := snap[k]; return ok }
	var out []string
	for _, p := range e.srv.VerifRIB().VerifPending() {
		if p.Op.GetOp() != spb.AFTOperation_ADD {
			continue // a held REPLACE may be doomed (its target deleted): it fails when retried, it does not resolve
		}
		ok := false
		switch t := p.Op.Entry.(type) {
		case *spb.AFTOperation_NextHopGroup:
			ok = len(t.NextHopGroup.GetNextHopGroup().GetNextHop()) > 0
			for _, nh := range t.NextHopGroup.GetNextHopGroup().GetNextHop() {
				if !has(Key{NI: p.NI, Kind: KNH, ID: nh.GetIndex()}) {
					ok = false
				}
			}
		case *spb.AFTOperation_Ipv4:
			ok = has(Key{NI: orStr(t.Ipv4.GetIpv4Entry().GetNextHopGroupNetworkInstance().GetValue(), p.NI), Kind: KNHG, ID: t.Ipv4.GetIpv4Entry().GetNextHopGroup().GetValue()})
		case *spb.AFTOperation_Ipv6:
			ok = has(Key{NI: orStr(t.Ipv6.GetIpv6Entry().GetNextHopGroupNetworkInstance().GetValue(), p.NI), Kind: KNHG, ID: t.Ipv6.GetIpv6Entry().GetNextHopGroup().GetValue()})
		case *spb.AFTOperation_Mpls:
			ok = has(Key{NI: orStr(t.Mpls.GetLabelEntry().GetNextHopGroupNetworkInstance().GetValue(), p.NI), Kind: KNHG, ID: t.Mpls.GetLabelEntry().GetNextHopGroup().GetValue()})
		}
		if ok {
			out = append(out, fmt.Sprintf("%s in %s", describeOp(p.Op), p.NI))
		}
	}
	return out
}

func diffIDs(a, b []uint64) []uint64 {
	in := map[uint64]bool{}
	for _, x := range b {
		in[x] = true
	}
	var out []uint64
	for _, x := range a {
		if !in[x] {
			out = append(out, x)
		}
	}
	return out
}

// compareState compares RIBContents with the model (C01).
func (e *env) compareState(via string) {
	snap := e.implSnapshot()
	if snap == nil {
		return
	}
	e.reportDiffs("C01", via, diffSnap(modelSnapshot(e.model, "", -1), snap))
}

func (e *env) reportDiffs(prop, via string, ds []Diff) {
	for _, d := range ds {
		if why, ok := e.invalidKeys[d.Key]; ok && (d.What != "payload" || e.model.Tab[d.Key] == nil || !e.model.Tab[d.Key].Loose) {
			e.report("C12", "invalid-had-effect", "an operation that must be rejected changed the "+d.Key.Kind.String()+" entry it names ("+d.What+")", why+"; "+d.String()+" ("+via+")", false)
		}
		switch d.What {
		case "missing":
			e.report(prop, "entry-missing", d.Key.Kind.String()+" acknowledged entry absent ("+via+")", d.String(), false)
		case "extra":
			e.report(prop, "entry-extra", d.Key.Kind.String()+" entry present that no acknowledged operation installed ("+via+")", d.String(), false)
		case "payload":
			if en := e.model.Tab[d.Key]; en != nil && en.Loose {
				continue // content of an Unspecified operation: not predicted
			}
			if en := e.model.Tab[d.Key]; en != nil {
				// two operations for this key were acknowledged on DIFFERENT streams at the same quiescent point (a
				// server that routes the results of held operations to their owners): which of them was installed
				// last cannot be told from the outside - the installed payload must be one of the two
				ok := false
				for _, alt := range e.altPayload[d.Key] {
					if compact(normalize(alt)) == d.Got {
						en.Msg, ok = alt, true
						e.probe("payload settled between two acknowledgements that travelled on different streams")
					}
				}
				if ok {
					continue
				}
			}
			p := prop
			if e.sc.Cfg.FullPayl {
				// full-field payload families belong to C07: field fidelity of the
				// proto -> YANG -> proto pipeline, not the fold of operations.
				p = "C07"
			}
			sig := d.Key.Kind.String() + " fields " + strings.Join(d.Fields, ",")
			e.report(p, "payload-mismatch", sig, d.String(), true)
		}
	}
}

// checkRefCounts compares the reference counters (hook) with the referrers
// counted from the implementation's own installed entries (RIBContents).
func (e *env) checkRefCounts(props ...string) {
	snap := e.implSnapshot()
	if snap == nil {
		return
	}
	nhgRefs := map[Key][]Key{}
	nhRefs := map[Key][]Key{}
	var keys []Key
	for k := range snap {
		keys = append(keys, k)
	}
	sortKeys(keys)
	for _, k := range keys {
		switch t := snap[k].(type) {
		case *aftpb.Afts_NextHopGroupKey:
			for _, nh := range t.GetNextHopGroup().GetNextHop() {
				r := Key{NI: k.NI, Kind: KNH, ID: nh.GetIndex()}
				nhRefs[r] = append(nhRefs[r], k)
			}
		case *aftpb.Afts_Ipv4EntryKey:
			r := Key{NI: orStr(t.GetIpv4Entry().GetNextHopGroupNetworkInstance().GetValue(), k.NI), Kind: KNHG, ID: t.GetIpv4Entry().GetNextHopGroup().GetValue()}
			nhgRefs[r] = append(nhgRefs[r], k)
		case *aftpb.Afts_Ipv6EntryKey:
			r := Key{NI: orStr(t.GetIpv6Entry().GetNextHopGroupNetworkInstance().GetValue(), k.NI), Kind: KNHG, ID: t.GetIpv6Entry().GetNextHopGroup().GetValue()}
			nhgRefs[r] = append(nhgRefs[r], k)
		case *aftpb.Afts_LabelEntryKey:
			r := Key{NI: orStr(t.GetLabelEntry().GetNextHopGroupNetworkInstance().GetValue(), k.NI), Kind: KNHG, ID: t.GetLabelEntry().GetNextHopGroup().GetValue()}
			nhgRefs[r] = append(nhgRefs[r], k)
		}
	}
	rcs := e.srv.VerifRIB().VerifRefCounts()
	for _, ni := range e.model.SortedNIs() {
		c := rcs[ni]
		ids := map[uint64]bool{}
		for id := range c.NextHopGroup {
			ids[id] = true
		}
		for id := range c.NextHop {
			ids[id] = true
		}
		for k := range nhgRefs {
			if k.NI == ni {
				ids[k.ID] = true
			}
		}
		for k := range nhRefs {
			if k.NI == ni {
				ids[k.ID] = true
			}
		}
		var sorted []uint64
		for id := range ids {
			sorted = append(sorted, id)
		}
		sort.Slice(sorted, func(i, j int) bool { return sorted[i] < sorted[j] })
		for _, id := range sorted {
			for _, kind := range []Kind{KNHG, KNH} {
				refs, got, what := nhgRefs[Key{NI: ni, Kind: KNHG, ID: id}], int(c.NextHopGroup[id]), "nhg"
				if kind == KNH {
					refs, got, what = nhRefs[Key{NI: ni, Kind: KNH, ID: id}], int(c.NextHop[id]), "nh"
				}
				if len(refs) == got {
					continue
				}
				dir := "high"
				if got < len(refs) {
					dir = "low"
				}
				for _, p := range props {
					e.report(p, "refcount-mismatch", what+" counter too "+dir, fmt.Sprintf("NI %s %s %d: counter %d, installed referrers %v", ni, what, id, got, refs), false)
				}
			}
		}
	}
}

func orStr(a, b string) string {
	if a != "" {
		return a
	}
	return b
}

// ---------------------------------------------------------------------------
// Get oracle (C07, and C01's "Get" observation)

var aftTypes = []spb.AFTType{spb.AFTType_ALL, spb.AFTType_IPV4, spb.AFTType_IPV6, spb.AFTType_MPLS, spb.AFTType_NEXTHOP_GROUP, spb.AFTType_NEXTHOP}

func kindOfAFT(t spb.AFTType) int {
	switch t {
	case spb.AFTType_IPV4:
		return int(KV4)
	case spb.AFTType_IPV6:
		return int(KV6)
	case spb.AFTType_MPLS:
		return int(KMPLS)
	case spb.AFTType_NEXTHOP_GROUP:
		return int(KNHG)
	case spb.AFTType_NEXTHOP:
		return int(KNH)
	}
	return -1
}

// doGet issues one Get and returns its responses and terminal status.
func (e *env) doGet(ni string, all bool, t spb.AFTType) ([]*spb.GetResponse, error) {
	req := &spb.GetRequest{Aft: t}
	if all {
		req.NetworkInstance = &spb.GetRequest_All{All: &spb.Empty{}}
	} else {
		req.NetworkInstance = &spb.GetRequest_Name{Name: ni}
	}
	gc := e.net.OpenGet(req)
	var rs []*spb.GetResponse
	for {
		r, err := gc.RecvTimeout(5 * time.Minute)
		if err != nil {
			if err == simnet.ErrTimeout {
				e.report("C11", "unanswered", "Get did not complete", e.sim.Describe(), false)
			}
			if status.Code(err) == codes.OK || err.Error() == "EOF" {
				return rs, nil
			}
			return rs, err
		}
		rs = append(rs, r)
	}
}

// checkGet compares one Get with the model.
func (e *env) checkGet(prop, ni string, all bool, t spb.AFTType) (Snapshot, []*spb.GetResponse) {
	rs, err := e.doGet(ni, all, t)
	scope := fmt.Sprintf("Get(ni=%q all=%v aft=%s)", ni, all, t)
	if err != nil {
		e.report(prop, "get-error", "Get of a valid scope failed", scope+": "+err.Error(), false)
	}
	snap, dup, err := snapFromGet(rs)
	if err != nil {
		e.report(prop, "get-bad-entry", "entry without payload", scope+": "+err.Error(), false)
	}
	if len(dup) > 0 {
		e.report(prop, "get-duplicate", "entry returned twice", fmt.Sprintf("%s: %v", scope, dup), false)
	}
	mni := ni
	if all {
		mni = ""
	}
	e.reportDiffs(prop, scope, diffSnap(modelSnapshot(e.model, mni, kindOfAFT(t)), snap))
	if len(snap) == 0 {
		e.probe("Get of an empty scope")
	}
	return snap, rs
}

// checkGetAgainstImpl issues a Get of the given scope at a quiescent point and compares it with the
// implementation's own installed entries (hook), not with a model: usable after concurrent runs. In
// particular a Get of a shape that was issued WHILE the RIB was being modified must not have left
// anything behind that makes an identical later Get differ from what is installed.
func (e *env) checkGetAgainstImpl(props []string, ni string, all bool, t spb.AFTType, when string) {
	rs, err := e.doGet(ni, all, t)
	scope := fmt.Sprintf("Get(ni=%q all=%v aft=%s) %s", ni, all, t, when)
	impl := e.implSnapshot()
	if impl == nil {
		return
	}
	want := Snapshot{}
	kind := kindOfAFT(t)
	for k, v := range impl {
		if (all || k.NI == ni) && (kind < 0 || k.Kind == Kind(kind)) {
			want[k] = v
		}
	}
	e.checkpoint(func() {
		for _, prop := range props {
			if err != nil {
				e.report(prop, "get-error", "Get of a valid scope failed", scope+": "+err.Error(), false)
				continue
			}
			snap, dup, serr := snapFromGet(rs)
			if serr != nil {
				e.report(prop, "get-bad-entry", "entry without payload", scope+": "+serr.Error(), false)
				continue
			}
			if len(dup) > 0 {
				e.report(prop, "get-duplicate", "entry returned twice", fmt.Sprintf("%s: %v", scope, dup), false)
			}
			for _, d := range diffSnap(want, snap) {
				e.report(prop, "get-differs-from-rib", "a Get at quiescence differs from the installed entries ("+d.What+")", scope+": "+d.String(), false)
			}
		}
	})
	e.probe("quiescent Get compared with the installed entries")
}

// fullGetCheck compares Gets with the model. level 0: Get(all, ALL); level 1:
// every network instance and all, table ALL; level 2: every (network instance |
// all) x (table | ALL), ALL == disjoint union of the per-table Gets, and the
// FromGetResponses round trip.
func (e *env) fullGetCheck(prop string, level int) {
	nis := []string{""}
	if level >= 1 {
		nis = append(nis, e.model.SortedNIs()...)
	}
	for _, ni := range nis {
		all := ni == ""
		types := aftTypes
		if level < 2 {
			types = aftTypes[:1]
		}
		union := Snapshot{}
		var allSnap Snapshot
		var allRs []*spb.GetResponse
		for _, t := range types {
			snap, rs := e.checkGet(prop, ni, all, t)
			if t == spb.AFTType_ALL {
				allSnap, allRs = snap, rs
				continue
			}
			for k, v := range snap {
				if _, ok := union[k]; ok {
					e.report(prop, "get-not-disjoint", "key returned by two per-table Gets", k.String(), false)
				}
				union[k] = v
			}
		}
		if level >= 2 {
			if ds := diffSnap(allSnap, union); len(ds) > 0 {
				e.report(prop, "get-all-not-union", "Get(ALL) differs from the union of the per-table Gets", fmt.Sprint(ds), false)
			}
			if all {
				e.roundTrip(allSnap, allRs)
			}
		}
	}
}

// roundTrip rebuilds a RIB from Get responses and compares it with the source.
func (e *env) roundTrip(src Snapshot, rs []*spb.GetResponse) {
	nr, err := rib.FromGetResponses(e.sc.Cfg.Default, rs)
	if err != nil {
		e.report("C07", "roundtrip-error", "FromGetResponses failed on the server's own responses", err.Error(), true)
		return
	}
	rc, err := nr.RIBContents()
	if err != nil {
		e.report("C07", "roundtrip-error", "RIBContents of rebuilt RIB failed", err.Error(), false)
	}
	snap, err := snapFromRIBContents(rc)
	if err != nil {
		e.report("C07", "roundtrip-error", "rebuilt RIB cannot be rendered", err.Error(), false)
	}
	for _, d := range diffSnap(src, snap) {
		e.report("C07", "roundtrip-mismatch", d.Key.Kind.String()+" "+d.What+" "+strings.Join(d.Fields, ","), d.String(), true)
	}
}

// ---------------------------------------------------------------------------
// C16 hooks

func (e *env) postChangeHook(ot constants.OpType, ts int64, ni string, data ygot.ValidatedGoStruct) {
	if e.hookFold == nil {
		e.hookFold = map[string]Snapshot{}
	}
	if e.hookFold[ni] == nil {
		e.hookFold[ni] = Snapshot{}
	}
	if ot == constants.Delete && (data == nil || reflect.ValueOf(data).IsNil()) {
		// DELETE of a key that was not installed: nothing was removed.
		return
	}
	k, m, err := keyOfStruct(ni, data)
	if err != nil {
		e.hookErr = append(e.hookErr, fmt.Sprintf("%s %s: %v", ot, ni, err))
		return
	}
	if os.Getenv("VERIF_DEBUG_HOOKS") != "" {
		if f, err := os.OpenFile(os.Getenv("VERIF_DEBUG_HOOKS"), os.O_APPEND|os.O_CREATE|os.O_WRONLY, 0o644); err == nil {
			fmt.Fprintf(f, "HOOK step %d %v %s %s %s\n", e.step, ot, ni, k, compact(m))
			f.Close()
		}
	}
	switch ot {
	case constants.Add, constants.Replace:
		e.hookFold[ni][k] = m
	case constants.Delete:
		delete(e.hookFold[ni], k)
	default:
		e.hookErr = append(e.hookErr, fmt.Sprintf("unknown op type %v", ot))
	}
}

// checkHooksAgainstImpl is the model-free form of checkHooks for the concurrent families: the
// notifications are judged against themselves and against the implementation's own RIB contents.
func (e *env) checkHooksAgainstImpl(when string) {
	if len(e.hookErr) > 0 {
		e.report("C16", "hook-bad-notification", "notification inconsistent with itself under concurrent writers", strings.Join(e.hookErr, "; ")+" ("+when+")", false)
	}
	impl := e.implSnapshot()
	if impl == nil {
		return
	}
	fold := Snapshot{}
	for _, s := range e.hookFold {
		for k, v := range s {
			fold[k] = v
		}
	}
	for _, d := range diffSnap(impl, fold) {
		e.report("C16", "hook-fold-mismatch", d.What+" under concurrent writers", d.String()+" ("+when+")", false)
	}
	e.probe("hook notifications judged against the implementation's RIB")
}

func (e *env) checkHooks() {
	if e.sc.Cfg.Hooks == "" || e.sc.Cfg.HookMute {
		return
	}
	if len(e.hookErr) > 0 {
		e.report("C16", "hook-bad-notification", "notification without a usable entry", strings.Join(e.hookErr, "; "), false)
	}
	fold := Snapshot{}
	for _, s := range e.hookFold {
		for k, v := range s {
			fold[k] = v
		}
	}
	for _, d := range diffSnap(modelSnapshot(e.model, "", -1), fold) {
		if en := e.model.Tab[d.Key]; d.What == "payload" && en != nil && en.Loose {
			continue
		}
		if d.What == "payload" {
			settled := false
			for _, alt := range e.altPayload[d.Key] {
				if compact(normalize(alt)) == d.Got {
					settled = true // (see altPayload: the order of two acknowledgements was not observable)
				}
			}
			if settled {
				continue
			}
		}
		late := ""
		if d.Key.NI != e.sc.Cfg.Default {
			late = " in a network instance created after hook registration"
		}
		e.report("C16", "hook-fold-mismatch", d.What+late, d.String(), true)
	}
}

var _ = proto.Equal
