package harness

import (
	"context"
	"fmt"
	"sort"
	"strings"

	spb "github.com/openconfig/gribi/v1/proto/service"
	"google.golang.org/grpc/codes"
	"google.golang.org/grpc/status"
)

func flushReq(fs *FlushSpec) *spb.FlushRequest {
	req := &spb.FlushRequest{}
	switch {
	case fs.All:
		req.NetworkInstance = &spb.FlushRequest_All{All: &spb.Empty{}}
	case fs.NI != "" || fs.Note() == "empty-name":
		req.NetworkInstance = &spb.FlushRequest_Name{Name: fs.NI}
	}
	switch {
	case fs.Override:
		req.Election = &spb.FlushRequest_Override{Override: &spb.Empty{}}
	case fs.ID != nil:
		req.Election = &spb.FlushRequest_Id{Id: uint128(*fs.ID)}
	}
	return req
}

// Note distinguishes "name set to the empty string" from "unset".
func (fs *FlushSpec) Note() string {
	if fs.EmptyName {
		return "empty-name"
	}
	return ""
}

type flushExpect struct {
	ok      bool
	codes   []codes.Code
	reasons []spb.FlushResponseError_Reason
	why     []string
	nis     []string
}

// expectFlush is the specification's decision table (gRIBI spec 4.3.1) against
// the model's election state.
func (e *env) expectFlush(fs *FlushSpec, learnt bool) flushExpect {
	var x flushExpect
	bad := func(c codes.Code, r spb.FlushResponseError_Reason, why string) {
		x.codes = append(x.codes, c)
		x.reasons = append(x.reasons, r)
		x.why = append(x.why, why)
	}
	switch {
	case fs.All:
		x.nis = e.model.SortedNIs()
	case fs.NI == "":
		bad(codes.InvalidArgument, spb.FlushResponseError_INVALID_NETWORK_INSTANCE, "network instance unset or empty")
	case !e.model.NIs[fs.NI]:
		bad(codes.InvalidArgument, spb.FlushResponseError_NO_SUCH_NETWORK_INSTANCE, "unknown network instance")
	default:
		x.nis = []string{fs.NI}
	}
	switch {
	case fs.Override:
	case fs.ID == nil && learnt:
		bad(codes.FailedPrecondition, spb.FlushResponseError_UNSPECIFIED_ELECTION_BEHAVIOR, "no election field although the server is in SINGLE_PRIMARY")
	case fs.ID != nil && !learnt:
		bad(codes.FailedPrecondition, spb.FlushResponseError_ELECTION_ID_IN_ALL_PRIMARY, "election id although the server has learnt none")
	case fs.ID != nil && *fs.ID == [2]uint64{0, 0}:
		bad(codes.InvalidArgument, spb.FlushResponseError_INVALID_ELECTION_ID, "zero election id")
	case fs.ID != nil && less128(*fs.ID, e.maxElec):
		bad(codes.FailedPrecondition, spb.FlushResponseError_NOT_PRIMARY, "election id lower than the highest learnt")
	}
	x.ok = len(x.codes) == 0
	return x
}

func (e *env) flush(fs0 *FlushSpec) {
	c := *fs0
	fs := &c
	if fs.RelID != 0 && fs.ID != nil {
		m := e.maxElec
		var id [2]uint64
		switch fs.RelID {
		case 1:
			id = m
		case 2:
			id = add128(m, 1)
		case 3:
			id = sub128(m, 1)
		case 4:
			id = [2]uint64{m[0] + 1, 0}
		default:
			id = [2]uint64{m[0] - 1, ^uint64(0)}
			if m[0] == 0 {
				id = sub128(m, 1)
			}
		}
		fs.ID = &id
		e.probe("flush: election id relative to the highest learnt id")
	}
	learnt := e.maxElec != [2]uint64{0, 0}
	x := e.expectFlush(fs, learnt)
	resp, err := e.net.Flush(context.Background(), flushReq(fs))
	desc := fmt.Sprintf("Flush(%+v) with highest learnt id %v", *fs, e.maxElec)
	if fs.ID != nil {
		desc = fmt.Sprintf("Flush(ni=%q all=%v id=%v) with highest learnt id %v", fs.NI, fs.All, *fs.ID, e.maxElec)
	}
	if x.ok {
		e.probe("authorised flush")
		if err != nil {
			sig := "authorised flush rejected: " + status.Code(err).String()
			if status.Code(err) == codes.Internal {
				sig = "authorised flush answered INTERNAL"
			}
			e.report("C08", "flush-error", sig, desc+": "+err.Error(), true)
		} else if resp.GetResult() != spb.FlushResponse_OK {
			e.report("C08", "flush-result", "result not OK although everything is removed", desc+": "+resp.String(), false)
		}
		e.model.Flush(x.nis)
		if !fs.All && len(e.model.NIs) > 1 {
			e.perNIFlush = true
		}
	} else {
		e.probe("rejected flush: " + x.why[0])
		if err == nil {
			e.checkpoint(func() {
				e.report("C08", "flush-accepted", x.why[0], desc+" was accepted", false)
				if strings.Contains(x.why[0], "network instance") {
					// a request that names no / an empty / an unknown network instance is malformed input (C12's "unknown
					// or empty network instance names", request validation anchor), whatever its election field says
					e.report("C12", "malformed-request-accepted", "Flush: "+x.why[0], desc+" was answered "+resp.GetResult().String(), false)
				}
			})
		}
		c := status.Code(err)
		okCode := false
		for _, want := range x.codes {
			if c == want {
				okCode = true
			}
		}
		if x.why[0] == "zero election id" && c == codes.FailedPrecondition {
			okCode = true // the specification does not single this case out
		}
		if !okCode {
			e.report("C08", "flush-status", x.why[0]+": wrong status code "+c.String(), fmt.Sprintf("%s: want one of %v, got %v", desc, x.codes, err), false)
		}
		// reasons: only where specification and implementation vocabulary agree
		// (NOT_PRIMARY, ELECTION_ID_IN_ALL_PRIMARY, UNSPECIFIED_ELECTION_BEHAVIOR).
		if len(x.codes) == 1 {
			switch x.reasons[0] {
			case spb.FlushResponseError_NOT_PRIMARY, spb.FlushResponseError_ELECTION_ID_IN_ALL_PRIMARY, spb.FlushResponseError_UNSPECIFIED_ELECTION_BEHAVIOR:
				got := flushReason(err)
				if got == nil || *got != x.reasons[0] {
					e.report("C08", "flush-reason", x.why[0]+": wrong FlushResponseError status", fmt.Sprintf("%s: want %v got %v", desc, x.reasons[0], got), false)
				}
			}
		}
	}
	e.checkpoint(func() {
		e.snapCache = e.implSnapshot()
		e.snapCacheOK = e.snapCache != nil
		e.compareStateAs("C08", "after-flush")
		e.checkRefCounts("C08", "C03")
		e.snapCacheOK = false
		e.checkHooks()
	})
	e.modelStates[e.model.StateHash()] = true
}

func flushReason(err error) *spb.FlushResponseError_Reason {
	st, ok := status.FromError(err)
	if !ok {
		return nil
	}
	for _, d := range st.Details() {
		if fe, ok := d.(*spb.FlushResponseError); ok {
			r := fe.GetStatus()
			return &r
		}
	}
	return nil
}

// checkTermination is called when a Modify RPC ended with an error although the
// client did nothing wrong at the transport level. That is only legitimate if
// an operation of the stream was invalid (the properties allow "FAILED or a
// clean RPC error"). Operations of the dead stream that never got a result may
// have been applied or not - the stream ended before their results could be
// delivered - but only as a prefix in send order; the model is advanced to the
// prefix that matches the implementation, and a state matching no prefix is a
// C01 violation.
func (e *env) checkTermination(s *session, term error) {
	legit := false
	for _, rec := range s.sent {
		if rec.state != opSent {
			continue
		}
		v, _, _ := e.model.Expect(rec.op)
		if v == VFail || v == VEither {
			legit = true
		}
	}
	if !legit {
		e.report("C06", "rpc-terminated", "Modify RPC ended with "+status.Code(term).String()+" although every unanswered operation was valid", term.Error(), false)
	}
	e.resolveUnacked(s, "C01")
}

// resolveUnacked advances the model over the prefix of s's unanswered
// operations that the implementation applied before the stream died (with the
// cascade of held operations simulated, see seqModel).
func (e *env) resolveUnacked(s *session, prop string) {
	var out []*opRec
	for _, rec := range s.sent {
		if rec.state == opSent {
			out = append(out, rec)
		}
	}
	sort.Slice(out, func(i, j int) bool { return out[i].seq < out[j].seq })
	if len(out) == 0 {
		return
	}
	var items []cutItem
	for _, rec := range out {
		items = append(items, cutItem{rec: rec})
	}
	last := s.elec
	e.checkpoint(func() {
		e.matchPrefix(items, 0, fmt.Sprintf("Modify RPC of session %d ended with %d operations unanswered", s.idx, len(out)), &last, prop)
	})
}

func implHas(s Snapshot, k Key) bool { _, ok := s[k]; return ok }

func (e *env) implSnapshot() Snapshot {
	if e.snapCacheOK {
		return e.snapCache
	}
	rc, err := e.srv.VerifRIB().RIBContents()
	if err != nil {
		e.report("C01", "rib-contents-error", "RIBContents failed", err.Error(), false)
		return nil
	}
	snap, err := snapFromRIBContents(rc)
	if err != nil {
		e.report("C07", "payload-unmarshalable", "installed entry cannot be rendered as proto", err.Error(), false)
		return nil
	}
	return snap
}

// compareStateAs is compareState with key-set differences attributed to prop
// (after a Flush they are C08's: "removes every entry of exactly those instances").
func (e *env) compareStateAs(prop, via string) {
	snap := e.implSnapshot()
	if snap == nil {
		return
	}
	e.reportDiffs(prop, via, diffSnap(modelSnapshot(e.model, "", -1), snap))
}
