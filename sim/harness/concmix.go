package harness

// Family "conc" (C11): 2-4 Modify sessions (negotiating, announcing, programming
// disjoint key spaces), Get readers and Flush callers, all concurrently, under
// fine/pct schedules with the writer-preferring lock model. Oracles: no panic,
// no stuck state, every stream answered; at quiescence the election facts hold
// and - when no Flush overlapped - the installed entries are exactly the
// acknowledged ones.

import (
	"context"
	"fmt"
	wpb "github.com/openconfig/ygot/proto/ywrapper"
	"math/rand/v2"
	"os"
	"sort"
	"strings"
	"time"

	aftpb "github.com/openconfig/gribi/v1/proto/gribi_aft"
	spb "github.com/openconfig/gribi/v1/proto/service"
	"google.golang.org/protobuf/proto"

	"verifsim/simrt"
)

// genConcShared: the concurrent workload over ONE small key space shared by all sessions (both instances,
// explicit and cross-instance group references, REPLACE and DELETE of referenced entries). Operations of a
// superseded primary that passed admission run concurrently with the new primary's, so check-then-act
// sequences of different sessions interleave on the same keys. There is no per-session model here; the
// oracle is what every linearizable outcome satisfies: no dangling reference, reference counters equal to
// the referrers, exactly-once results, no panic or stuck state, the service probe.
func genConcShared(seed uint64, prop string) *Scenario {
	sc := genConc(seed, prop)
	sc.Family = "concshared"
	r := rand.New(rand.NewPCG(seed, 0x63736864))
	g := newGen(seed, 0x63736865, &sc.Cfg)
	g.wDel += 2
	var steps []Step
	for i := range sc.Steps {
		st := sc.Steps[i]
		switch st.T {
		case "s-ops":
			st.Ops = nil
			for k := 0; k < 3+r.IntN(8); k++ {
				var op *spb.AFTOperation
				if r.IntN(4) == 0 {
					ops := g.chain()
					op = ops[r.IntN(len(ops))]
				} else {
					op = g.randomOp()
				}
				op.Id = uint64(100000*(st.Sess+1)) + g.id()
				st.Ops = append(st.Ops, opJSON(op))
			}
		case "flusher":
			if !st.Flush.All {
				continue // partial flushes legitimately leave dangling references: not in this family
			}
		}
		steps = append(steps, st)
	}
	sc.Steps = steps
	return sc
}

// genConcHook: concshared with both change hooks registered and judged without a model: every
// resolved-entry notification must be consistent with itself (its private snapshot has the entry it
// announces as added, lacks the one it announces as deleted - whatever other writers did meanwhile),
// and the fold of the post-change notifications must equal the implementation's own RIB contents at
// the final quiescent point.
func genConcHook(seed uint64, prop string) *Scenario {
	r := rand.New(rand.NewPCG(seed, 0x63686b))
	if r.IntN(3) == 0 {
		sc := genConcShared(seed, prop)
		sc.Family = "conchook"
		sc.Cfg.Hooks, sc.Cfg.HookMute = "both", true // (mute: the model-based fold comparison of the g1 family does not apply)
		return sc
	}
	// Directed shape: a handful of top-level keys whose group is installed, so that every ADD installs at once;
	// the first session prepares them and then keeps adding and deleting them while one or two more sessions
	// connect late, take the primary role (equal or higher id) and do the same to the SAME keys.
	cfg := ScenCfg{Default: "DEFAULT", VRFs: []string{"VRF-A"}, FwdRefs: true, Hooks: "both", HookMute: true}
	cfg.Policy = []string{"fine", "pct", "pct", "pct"}[r.IntN(4)]
	cfg.PCTDepth = 1 + r.IntN(4)
	cfg.Window = []int{0, 0, 1, 4}[r.IntN(4)]
	cfg.FIBAck = r.IntN(2) == 0
	sc := &Scenario{Family: "conchook", Seed: seed, Cfg: cfg}
	g := newGen(seed, 0x63686c, &sc.Cfg)
	opID := uint64(0)
	id := func(s int) uint64 { opID++; return uint64(100000*(s+1)) + opID }
	nh := func(s int) *spb.AFTOperation {
		return &spb.AFTOperation{Id: id(s), NetworkInstance: "DEFAULT", Op: spb.AFTOperation_ADD, Entry: &spb.AFTOperation_NextHop{NextHop: &aftpb.Afts_NextHopKey{Index: 1, NextHop: &aftpb.Afts_NextHop{IpAddress: sv("192.0.2.1")}}}}
	}
	grp := func(s int) *spb.AFTOperation {
		return &spb.AFTOperation{Id: id(s), NetworkInstance: "DEFAULT", Op: spb.AFTOperation_ADD, Entry: &spb.AFTOperation_NextHopGroup{NextHopGroup: &aftpb.Afts_NextHopGroupKey{Id: 1, NextHopGroup: &aftpb.Afts_NextHopGroup{
			NextHop: []*aftpb.Afts_NextHopGroup_NextHopKey{{Index: 1, NextHop: &aftpb.Afts_NextHopGroup_NextHop{Weight: u(1)}}}}}}}
	}
	toggle := func(s int) *spb.AFTOperation {
		ni := []string{"DEFAULT", "VRF-A"}[g.pick(2)]
		var nin *wpb.StringValue
		if ni != "DEFAULT" {
			nin = sv("DEFAULT")
		}
		// few keys, as many ADDs as DELETEs: two sessions meet on the same key all the time
		o := &spb.AFTOperation{Id: id(s), NetworkInstance: ni, Op: []spb.AFTOperation_Operation{spb.AFTOperation_ADD, spb.AFTOperation_DELETE}[g.pick(2)]}
		switch g.pick(6) {
		case 0, 1, 2, 3:
			o.Entry = &spb.AFTOperation_Ipv4{Ipv4: &aftpb.Afts_Ipv4EntryKey{Prefix: v4Prefixes[0], Ipv4Entry: &aftpb.Afts_Ipv4Entry{NextHopGroup: u(1), NextHopGroupNetworkInstance: nin, EntryMetadata: g.meta()}}}
		case 4:
			o.Entry = &spb.AFTOperation_Ipv6{Ipv6: &aftpb.Afts_Ipv6EntryKey{Prefix: v6Prefixes[0], Ipv6Entry: &aftpb.Afts_Ipv6Entry{NextHopGroup: u(1), NextHopGroupNetworkInstance: nin, EntryMetadata: g.meta()}}}
		default:
			o.Entry = &spb.AFTOperation_Mpls{Mpls: &aftpb.Afts_LabelEntryKey{Label: &aftpb.Afts_LabelEntryKey_LabelUint64{LabelUint64: labels[0]}, LabelEntry: &aftpb.Afts_LabelEntry{NextHopGroup: u(1), NextHopGroupNetworkInstance: nin, EntryMetadata: g.meta()}}}
		}
		if o.Op == spb.AFTOperation_DELETE && g.chance(1, 2) {
			stripPayload(o)
		}
		return o
	}
	batch := func(s, n int) Step {
		var ops []*spb.AFTOperation
		for i := 0; i < n; i++ {
			ops = append(ops, toggle(s))
		}
		st := g.batchStep(s, ops)
		st.T = "s-ops"
		return st
	}
	nsess := 2 + r.IntN(2)
	for s := 0; s < nsess; s++ {
		if s > 0 {
			sc.Steps = append(sc.Steps, Step{T: "s-join", Sess: s, A: 10 + r.IntN(120)})
		}
		e := [2]uint64{0, uint64(5 + r.IntN(2)*s)}
		sc.Steps = append(sc.Steps, Step{T: "s-elect", Sess: s, Elec: &e})
		if s == 0 {
			prep := g.batchStep(0, []*spb.AFTOperation{nh(0), grp(0), toggle(0), toggle(0), toggle(0)})
			prep.T = "s-ops"
			sc.Steps = append(sc.Steps, prep)
		}
		nb := 2 + r.IntN(3)
		if s == 0 {
			nb = 3 + r.IntN(4) // the first session is busy for long enough that the others arrive in the middle of a request
		}
		for b := 0; b < nb; b++ {
			sc.Steps = append(sc.Steps, batch(s, 6+r.IntN(9)))
		}
	}
	if r.IntN(3) == 0 {
		sc.Steps = append(sc.Steps, Step{T: "reader", Sess: 100, Get: &GetSpec{All: true, AFT: int32(spb.AFTType_ALL)}, A: 1 + r.IntN(2)})
	}
	if r.IntN(5) == 0 {
		sc.Steps = append(sc.Steps, Step{T: "flusher", Sess: 200, Flush: &FlushSpec{All: true, Override: true}, A: 20 + r.IntN(60)})
	}
	return sc
}

func init() {
	families["conchook"] = &family{gen: genConcHook, run: runConc}
	families["concshared"] = &family{gen: genConcShared, run: runConc}
	families["conc"] = &family{gen: genConc, run: runConc}
}

// concOps builds session s's operations over its private key space.
func concOps(g *gen, s int, n int) []*spb.AFTOperation {
	ni := []string{"DEFAULT", "VRF-A"}[s%2]
	base := uint64(10 * (s + 1))
	var ops []*spb.AFTOperation
	id := func() uint64 { return uint64(10000*(s+1)) + g.id() }
	for len(ops) < n {
		switch g.pick(6) {
		case 5: // a chain across instances: next-hop and group in the LAST instance, the prefix in the FIRST one
			if len(g.nis) < 3 {
				continue
			}
			first, last := "DEFAULT", g.nis[len(g.nis)-1]
			nh1, grp := base+uint64(1+g.pick(3)), base+uint64(1+g.pick(2))
			c := []*spb.AFTOperation{
				{Id: id(), NetworkInstance: last, Op: spb.AFTOperation_ADD, Entry: &spb.AFTOperation_NextHop{NextHop: g.nhPayload(nh1)}},
				{Id: id(), NetworkInstance: last, Op: spb.AFTOperation_ADD, Entry: &spb.AFTOperation_NextHopGroup{NextHopGroup: &aftpb.Afts_NextHopGroupKey{Id: grp, NextHopGroup: &aftpb.Afts_NextHopGroup{NextHop: []*aftpb.Afts_NextHopGroup_NextHopKey{{Index: nh1, NextHop: &aftpb.Afts_NextHopGroup_NextHop{Weight: u(g.mark())}}}}}}},
				{Id: id(), NetworkInstance: first, Op: spb.AFTOperation_ADD, Entry: &spb.AFTOperation_Ipv4{Ipv4: &aftpb.Afts_Ipv4EntryKey{Prefix: fmt.Sprintf("10.%d.%d.0/24", s+1, 100+g.pick(3)), Ipv4Entry: &aftpb.Afts_Ipv4Entry{NextHopGroup: u(grp), NextHopGroupNetworkInstance: sv(last), EntryMetadata: g.meta()}}}},
			}
			if g.chance(1, 2) {
				g.r.Shuffle(len(c), func(i, j int) { c[i], c[j] = c[j], c[i] })
			}
			ops = append(ops, c...)
		case 0, 1: // a chain in arrival order chosen at random
			nh1, nh2, grp := base+uint64(1+g.pick(3)), base+uint64(1+g.pick(3)), base+uint64(1+g.pick(2))
			c := []*spb.AFTOperation{
				{Id: id(), NetworkInstance: ni, Op: spb.AFTOperation_ADD, Entry: &spb.AFTOperation_NextHop{NextHop: g.nhPayload(nh1)}},
				{Id: id(), NetworkInstance: ni, Op: spb.AFTOperation_ADD, Entry: &spb.AFTOperation_NextHop{NextHop: g.nhPayload(nh2)}},
				{Id: id(), NetworkInstance: ni, Op: spb.AFTOperation_ADD, Entry: &spb.AFTOperation_NextHopGroup{NextHopGroup: &aftpb.Afts_NextHopGroupKey{Id: grp, NextHopGroup: &aftpb.Afts_NextHopGroup{NextHop: []*aftpb.Afts_NextHopGroup_NextHopKey{{Index: nh1, NextHop: &aftpb.Afts_NextHopGroup_NextHop{Weight: u(g.mark())}}}}}}},
				{Id: id(), NetworkInstance: ni, Op: spb.AFTOperation_ADD, Entry: &spb.AFTOperation_Ipv4{Ipv4: &aftpb.Afts_Ipv4EntryKey{Prefix: fmt.Sprintf("10.%d.%d.0/24", s+1, g.pick(3)), Ipv4Entry: &aftpb.Afts_Ipv4Entry{NextHopGroup: u(grp), EntryMetadata: g.meta()}}}},
			}
			if nh2 != nh1 {
				c[2].GetNextHopGroup().NextHopGroup.NextHop = append(c[2].GetNextHopGroup().NextHopGroup.NextHop, &aftpb.Afts_NextHopGroup_NextHopKey{Index: nh2, NextHop: &aftpb.Afts_NextHopGroup_NextHop{Weight: u(g.mark())}})
			}
			g.r.Shuffle(len(c), func(i, j int) { c[i], c[j] = c[j], c[i] })
			ops = append(ops, c...)
		case 2:
			ops = append(ops, &spb.AFTOperation{Id: id(), NetworkInstance: ni, Op: spb.AFTOperation_DELETE, Entry: &spb.AFTOperation_Ipv4{Ipv4: &aftpb.Afts_Ipv4EntryKey{Prefix: fmt.Sprintf("10.%d.%d.0/24", s+1, g.pick(3))}}})
		case 3:
			ops = append(ops, &spb.AFTOperation{Id: id(), NetworkInstance: ni, Op: spb.AFTOperation_DELETE, Entry: &spb.AFTOperation_NextHopGroup{NextHopGroup: &aftpb.Afts_NextHopGroupKey{Id: base + uint64(1+g.pick(2))}}})
		default:
			ops = append(ops, &spb.AFTOperation{Id: id(), NetworkInstance: ni, Op: spb.AFTOperation_ADD, Entry: &spb.AFTOperation_NextHop{NextHop: g.nhPayload(base + uint64(1+g.pick(3)))}})
		}
	}
	return ops
}

func genConc(seed uint64, prop string) *Scenario {
	r := rand.New(rand.NewPCG(seed, 0x636f6e63))
	cfg := ScenCfg{Default: "DEFAULT", VRFs: []string{"VRF-A"}, FwdRefs: true}
	if r.IntN(2) == 0 {
		cfg.VRFs = []string{"VRF-A", "VRF-B"} // three instances: a flush of everything passes through a middle one
	}
	cfg.Policy = []string{"fine", "pct", "pct", "coarse"}[r.IntN(4)]
	cfg.PCTDepth = 1 + r.IntN(4)
	cfg.Window = []int{0, 0, 1, 4}[r.IntN(4)]
	cfg.FIBAck = r.IntN(2) == 0
	if r.IntN(3) == 0 {
		// resolved-entry hook registered: every install copies all instances (copyRIBs: RIB lock, then each
		// instance's lock) - one party of the potential cycle with Flush and run-time AddNetworkInstance
		cfg.Hooks, cfg.HookMute = "both", true
	}
	sc := &Scenario{Family: "conc", Seed: seed, Cfg: cfg}
	g := newGen(seed, 0x636f6e64, &sc.Cfg)
	nsess := 2 + r.IntN(3)
	deep := deepSeed(seed) && r.IntN(3) == 0
	if deep {
		nsess = 4 + r.IntN(3)
	}
	late := -1
	if r.IntN(3) == 0 {
		late = 1 + r.IntN(nsess-1) // this session connects and negotiates while the others are already at work
	}
	for s := 0; s < nsess; s++ {
		if s == late {
			sc.Steps = append(sc.Steps, Step{T: "s-join", Sess: s, A: r.IntN(25)})
		}
		id := [2]uint64{0, uint64(5 + r.IntN(4))}
		sc.Steps = append(sc.Steps, Step{T: "s-elect", Sess: s, Elec: &id})
		nb := 1 + r.IntN(3)
		if deep {
			nb = 2 + r.IntN(6)
		}
		for b := 0; b < nb; b++ {
			st := g.batchStep(s, concOps(g, s, 2+g.pick(5)))
			st.T = "s-ops"
			sc.Steps = append(sc.Steps, st)
			if r.IntN(3) == 0 {
				id2 := [2]uint64{0, uint64(6 + r.IntN(6))}
				sc.Steps = append(sc.Steps, Step{T: "s-elect", Sess: s, Elec: &id2})
			}
		}
		if r.IntN(3) == 0 {
			// A: 0 half-close, 1 cancel, 2 connection reset; B: 1 = go away at once, without reading what is there
			sc.Steps = append(sc.Steps, Step{T: "s-leave", Sess: s, A: r.IntN(3), B: r.IntN(2)})
		}
	}
	for i := 0; i < r.IntN(3); i++ {
		gs := &GetSpec{AFT: int32(aftTypeNums[r.IntN(len(aftTypeNums))])}
		if r.IntN(2) == 0 {
			gs.All = true
		} else {
			gs.NI = g.ni()
		}
		rd := Step{T: "reader", Sess: 100 + i, Get: gs, A: 1 + r.IntN(3)}
		if r.IntN(3) == 0 {
			// the reader walks away from its Get streams after B-1 responses
			rd.B, rd.Note = 1+r.IntN(4), getModes[r.IntN(3)]
		}
		sc.Steps = append(sc.Steps, rd)
	}
	if os.Getenv("VERIF_NI_ADDER") != "" && r.IntN(4) == 0 {
		// The embedding device adds network instances at run time (Server.AddNetworkInstance). C11
		// quantifies over Modify sessions, Get readers and Flush callers only, so this actor is OUTSIDE
		// the property and off by default: with it (and a resolved-entry hook) the simulator reaches the
		// three-party lock cycle Flush / copyRIBs / AddNetworkInstance described in DESIGN.md 12.2.
		sc.Steps = append(sc.Steps, Step{T: "ni-adder", Sess: 300, A: r.IntN(30), B: 1 + r.IntN(3)})
	}
	if r.IntN(3) == 0 {
		for i := 0; i <= r.IntN(2); i++ {
			fs := &FlushSpec{Override: true}
			if r.IntN(2) == 0 {
				fs.All = true
			} else {
				fs.NI = g.ni()
			}
			sc.Steps = append(sc.Steps, Step{T: "flusher", Sess: 200 + i, Flush: fs, A: r.IntN(40)})
		}
	}
	return sc
}

func runConc(e *env) {
	e.setup()
	type sessPlan struct {
		n     int
		steps []*Step
		s     *session
	}
	plans := map[int]*sessPlan{}
	var order []int
	var readers, flushers, adders []*Step
	for i := range e.sc.Steps {
		st := &e.sc.Steps[i]
		switch st.T {
		case "ni-adder":
			adders = append(adders, st)
		case "s-join", "s-elect", "s-ops", "s-leave":
			p := plans[st.Sess]
			if p == nil {
				p = &sessPlan{n: st.Sess}
				plans[st.Sess] = p
				order = append(order, st.Sess)
			}
			p.steps = append(p.steps, st)
		case "reader":
			readers = append(readers, st)
		case "flusher":
			flushers = append(flushers, st)
		}
	}
	sort.Ints(order)
	nJoiners := 0
	for _, p := range plans {
		if len(p.steps) > 0 && p.steps[0].T == "s-join" {
			nJoiners++
		}
	}
	done, want := 0, 0
	var problems []string
	var announced [][2]uint64
	flushRan := false
	cancelled := false
	var maybeAnnounced [][2]uint64
	sentPayload := map[Key][]proto.Message{}
	// sessions: negotiate concurrently too (same parameters, so consistency holds)
	// Sessions negotiate one after the other: a session that is connected but has not
	// negotiated yet makes another's parameters "differ" (C09 treats that as unspecified).
	for _, sn := range order {
		p := plans[sn]
		p.s = &session{idx: len(e.sess), sent: map[uint64]*opRec{}, fibAck: e.sc.Cfg.FIBAck}
		e.sess = append(e.sess, p.s)
		if len(p.steps) > 0 && p.steps[0].T == "s-join" {
			continue // connects and negotiates from its own task, concurrently with the others' work
		}
		p.s.mc = e.net.OpenModify()
		c := 6
		if p.s.fibAck {
			c = 7
		}
		p.s.mc.Send(&spb.ModifyRequest{Params: comboParams(c)})
		simrt.AwaitQuiescence("conc-params")
		if rs, term := e.drain(p.s); term != nil || len(rs) != 1 {
			e.report("C09", "negotiation-failed", "supported params rejected", fmt.Sprint(term), false)
		}
	}
	for _, sn := range order {
		p := plans[sn]
		if len(p.steps) == 0 || (p.steps[0].T != "s-elect" && !(p.steps[0].T == "s-join" && len(p.steps) > 1 && p.steps[1].T == "s-elect")) {
			continue // shrinking removed the announcement: this session has nothing meaningful to do
		}
		want++
		simrt.Go("conc-session", func() {
			defer func() { done++ }()
			s := p.s
			for _, st := range p.steps {
				switch st.T {
				case "s-join":
					// every other session has negotiated these very parameters, so this must be accepted
					simrt.Yield("join-delay", st.A)
					s.mc = e.net.OpenModify()
					c := 6
					if s.fibAck {
						c = 7
					}
					s.mc.Send(&spb.ModifyRequest{Params: comboParams(c)})
					r, err := s.mc.RecvTimeout(10 * time.Minute)
					if err != nil && modifyReason(err) == spb.ModifyRPCErrorDetails_PARAMS_DIFFER_FROM_OTHER_CLIENTS && nJoiners > 1 {
						// another late joiner was connected but had not negotiated yet at that instant: a silent
						// session holds the protocol's default parameters, so the refusal is what C09 demands
						e.probe("late joiner refused while another one was connected but silent")
						s.dead = true
						return
					}
					if err != nil || r.GetSessionParamsResult().GetStatus() != spb.SessionParametersResult_OK {
						problems = append(problems, fmt.Sprintf("session %d joining late: negotiation of the parameters every other session uses failed: %v %v", p.n, r, err))
						return
					}
					e.probe("session negotiated while others were active")
					continue
				case "s-elect":
					id := *st.Elec
					s.elec = id
					s.announced = append(s.announced, id)
					s.mc.Send(&spb.ModifyRequest{ElectionId: uint128(id)})
				case "s-leave":
					// read what is there, then go away while the others carry on
					if st.B == 0 {
						simrt.Sleep("leave-delay", 20*time.Millisecond)
						for {
							r, err, ok := s.mc.TryRecv()
							if !ok || err != nil {
								break
							}
							s.pendingResp = append(s.pendingResp, r)
						}
					}
					switch st.A {
					case 0:
						s.mc.CloseSend()
					case 1:
						s.mc.Stream().Cancel()
						s.dead = true
					default:
						e.sim.Fault("conn-reset")
						s.mc.Stream().Reset()
						s.dead = true
					}
					s.closed = true
					e.probe("session left while others were active")
					return
				case "s-ops":
					ops := st.ops()
					if len(ops) == 0 {
						continue
					}
					for _, op := range ops {
						op.ElectionId = uint128(s.elec)
						e.opSeq++
						rec := &opRec{op: op, sess: s.idx, seq: e.opSeq}
						s.sent[op.GetId()] = rec
						e.allOps[op.GetId()] = rec
						if _, en, _ := e.model.Analyse(op); en != nil && op.GetOp() != spb.AFTOperation_DELETE {
							sentPayload[en.Key] = append(sentPayload[en.Key], en.Msg)
						}
					}
					s.mc.Send(&spb.ModifyRequest{Operation: ops})
				}
				// read whatever is there: a real client reads concurrently
				for {
					r, err, ok := s.mc.TryRecv()
					if !ok {
						break
					}
					if err != nil {
						problems = append(problems, fmt.Sprintf("session %d: RPC ended: %v", p.n, err))
						return
					}
					s.pendingResp = append(s.pendingResp, r)
				}
			}
		})
	}
	for _, st := range readers {
		st := st
		want++
		simrt.Go("conc-reader", func() {
			defer func() { done++ }()
			for i := 0; i < st.A; i++ {
				req := &spb.GetRequest{Aft: spb.AFTType(st.Get.AFT)}
				if st.Get.All {
					req.NetworkInstance = &spb.GetRequest_All{All: &spb.Empty{}}
				} else {
					req.NetworkInstance = &spb.GetRequest_Name{Name: st.Get.NI}
				}
				gc := e.net.OpenGet(req)
				nresp := 0
				for {
					if st.B > 0 && nresp >= st.B-1 {
						// walk away from the stream; the other RPCs must not notice
						if !gc.Stream().Dead() {
							e.probe("concurrent Get abandoned before its end")
						}
						switch st.Note {
						case "cancel":
							gc.Stream().Cancel()
						case "reset":
							gc.Stream().Reset()
						default:
							e.sim.Fault("stall")
							simrt.Yield("reader-stall", 30)
							gc.Stream().Cancel()
						}
						break
					}
					r, err := gc.RecvTimeout(10 * time.Minute)
					nresp++
					if err != nil {
						if err.Error() != "EOF" {
							problems = append(problems, fmt.Sprintf("reader: Get ended with %v", err))
						}
						break
					}
					for _, en := range r.GetEntry() {
						k, m, kerr := entryKey(en)
						if kerr != nil {
							problems = append(problems, "reader: "+kerr.Error())
							continue
						}
						okv := false
						for _, cand := range sentPayload[k] {
							if proto.Equal(normalize(cand), normalize(m)) {
								okv = true
							}
						}
						if !okv {
							problems = append(problems, fmt.Sprintf("reader: Get returned %s with a payload nobody ever sent: %s", k, compact(m)))
						}
					}
				}
				if st.B == 0 {
					e.probe("concurrent Get completed")
				}
			}
		})
	}
	for _, st := range flushers {
		st := st
		want++
		simrt.Go("conc-flusher", func() {
			defer func() { done++ }()
			simrt.Yield("flusher-delay", st.A)
			ctx, cancel := context.WithTimeout(context.Background(), 10*time.Minute)
			defer cancel()
			flushRan = true
			if _, err := e.net.Flush(ctx, flushReq(st.Flush)); err != nil {
				problems = append(problems, fmt.Sprintf("flusher: %v", err))
			}
			e.probe("concurrent Flush completed")
		})
	}
	for _, st := range adders {
		st := st
		want++
		simrt.Go("conc-ni-adder", func() {
			defer func() { done++ }()
			for i := 0; i < st.B; i++ {
				simrt.Yield("adder-delay", st.A)
				if err := e.srv.AddNetworkInstance(fmt.Sprintf("LATE-%d", i)); err != nil {
					problems = append(problems, fmt.Sprintf("AddNetworkInstance: %v", err))
				}
				e.probe("network instance added while RPCs are running")
			}
		})
	}
	if !simrt.WaitUntil("conc-join", "all clients finished", 2*time.Hour, func() bool { return done == want }) {
		e.report("C11", "unanswered", "a concurrent client never finished", e.sim.Describe(), false)
	}
	simrt.AwaitQuiescence("conc-quiesce")
	// collect everything the sessions were sent
	for _, sn := range order {
		s := plans[sn].s
		if s.mc == nil {
			continue
		}
		rs, term := e.drain(s)
		s.pendingResp = append(s.pendingResp, rs...)
		if term != nil && !s.closed {
			problems = append(problems, fmt.Sprintf("session %d: RPC ended: %v", sn, term))
		}
		if s.closed && s.dead {
			cancelled = true
		}
	}
	for _, sn := range order {
		s := plans[sn].s
		n := 0
		for _, r := range s.pendingResp {
			if r.GetElectionId() != nil {
				n++
			}
		}
		if n > len(s.announced) {
			n = len(s.announced)
		}
		announced = append(announced, s.announced[:n]...)
		if n < len(s.announced) {
			if s.closed && s.dead {
				// cancelled with announcements in flight: they may or may not have been processed
				maybeAnnounced = append(maybeAnnounced, s.announced[n:]...)
			} else {
				problems = append(problems, fmt.Sprintf("session %d: %d of %d announcements never answered", sn, len(s.announced)-n, len(s.announced)))
			}
		}
	}
	foreign := false
	e.checkpoint(func() {
		_ = maybeAnnounced
		if len(problems) > 0 {
			e.report("C11", "concurrent-client-problem", "a concurrent RPC failed or returned garbage", fmt.Sprint(problems), false)
		}
		// election facts
		if len(announced) > 0 {
			mx := announced[0]
			for _, a := range announced[1:] {
				if less128(mx, a) {
					mx = a
				}
			}
			id, master := e.srv.VerifElection()
			// announcements of a cancelled session that were in flight may count too
			if id != nil {
				for _, a := range maybeAnnounced {
					if less128(mx, a) && a == [2]uint64{id.High, id.Low} {
						mx = a
					}
				}
			}
			e.maxElec = mx
			if id == nil || id.High != mx[0] || id.Low != mx[1] {
				e.report("C11", "quiescent-election", "reported election id is not the maximum announced", fmt.Sprintf("maximum announced %v, server %v", mx, id), false)
			} else {
				vs, ok := e.srv.VerifSessions()[master]
				everMax := false
				{
					// the primary must be a session that announced the maximum at some point
					for _, sn := range order {
						for _, st := range plans[sn].steps {
							if st.T == "s-elect" && *st.Elec == mx {
								everMax = true
							}
						}
					}
				}
				departed := false
				for _, sn := range order {
					if plans[sn].s.closed {
						departed = true
					}
				}
				if (!ok && !departed) || !everMax {
					e.report("C11", "quiescent-election", "the primary is not a live session that announced the maximum", fmt.Sprintf("master %q %+v", master, vs), false)
				}
			}
		}
		// exactly-once per id, whatever happened
		for _, sn := range order {
			s := plans[sn].s
			seen := map[uint64]map[spb.AFTResult_Status]int{}
			for _, r := range s.pendingResp {
				for _, res := range r.GetResult() {
					if s.sent[res.GetId()] == nil {
						foreign = true
						sig := "result for an id nobody sent"
						if other := e.allOps[res.GetId()]; other != nil {
							sig = "result for another session's operation that is never held"
							if _, en, _ := e.model.Analyse(other.op); en != nil && other.op.GetOp() != spb.AFTOperation_DELETE && en.Key.Kind != KNH {
								sig = "result for another session's operation that may have been held"
							}
						}
						if (e.sc.Family == "concshared" || e.sc.Family == "conchook") && strings.HasSuffix(sig, "may have been held") {
							// shared keys: another session's install resolved it - the known finding about held
							// operations being keyed by id only (C06's clause, not a concurrency defect)
							e.report("C06", "foreign-result", "result for held operation of another session (shared key space)", fmt.Sprintf("stream of session %d: %v", sn, res), true)
							continue
						}
						e.report("C11", "foreign-result", sig, fmt.Sprintf("stream of session %d: %v", sn, res), true)
						continue
					}
					if seen[res.GetId()] == nil {
						seen[res.GetId()] = map[spb.AFTResult_Status]int{}
					}
					seen[res.GetId()][res.GetStatus()]++
				}
			}
			for id, m := range seen {
				if m[spb.AFTResult_FAILED] > 1 || m[spb.AFTResult_RIB_PROGRAMMED] > 1 || m[spb.AFTResult_FIB_PROGRAMMED] > 1 || (m[spb.AFTResult_FAILED] > 0 && m[spb.AFTResult_RIB_PROGRAMMED] > 0) {
					// exactly-once per id is C06's clause whatever the schedule; C11 claims it as part of "answers every request"
					e.report("C06", "duplicate-result", "operation answered more than once under concurrency", fmt.Sprintf("session %d id %d: %v", sn, id, m), false)
					e.report("C11", "duplicate-result", "operation answered more than once under concurrency", fmt.Sprintf("session %d id %d: %v", sn, id, m), false)
				}
			}
		}
	})
	partialFlush := false
	for _, st := range flushers {
		if !st.Flush.All {
			partialFlush = true
		}
	}
	if !partialFlush {
		// Whole-RIB state changed only through Modify and flushes of EVERYTHING: whatever the overlap, an
		// operation is acknowledged against the state before or after a flush, never against half of one,
		// so no installed entry may reference something that is not installed.
		if d := e.implDangling(); len(d) > 0 {
			e.report("C11", "dangling-after-concurrent-flush", "installed entry references a missing entry although only Modify and full flushes ran", fmt.Sprint(d), false)
		}
		e.probe("closure of references checked at quiescence")
	}
	// the Get shapes the readers used while the RIB was changing, asked again now that everything is quiet
	for _, st := range readers {
		e.checkGetAgainstImpl([]string{"C07", "C11"}, st.Get.NI, st.Get.All, spb.AFTType(st.Get.AFT), "after the concurrent run")
	}
	// whatever interleaved: once everything is quiet, nothing the implementation holds is resolvable
	if h := e.implHeldResolvable(); len(h) > 0 {
		e.report("C11", "resolvable-left-held", "an operation is still held at quiescence although everything it references is installed", fmt.Sprint(h), false)
	}
	if e.sc.Family == "conchook" {
		e.checkHooksAgainstImpl("at the end of the concurrent run")
	}
	shared := e.sc.Family == "concshared" || e.sc.Family == "conchook"
	switch {
	case shared:
		e.probe("shared key space: invariants only")
		e.propOverride = "C11"
		e.checkpoint(func() { e.checkRefCounts("C03") })
		e.propOverride = ""
	case flushRan:
		e.probe("a Flush overlapped the modifications")
	case cancelled:
		e.probe("state comparison skipped: a session was cancelled with operations in flight")
	case foreign:
		// (known finding) a held operation was answered on another stream: the per-stream
		// acknowledgement order no longer determines the order of installation.
		e.probe("state comparison skipped: results crossed streams")
	default:
		// no Flush overlapped: installed entries are exactly the acknowledged ones.
		// Key spaces are disjoint, so the sessions' acknowledgement streams can be replayed one after the other.
		e.probe("concurrent run without Flush: full state comparison")
		e.propOverride = "C11"
		for _, sn := range order {
			s := plans[sn].s
			e.processResultsConc(s, s.pendingResp)
		}
		// a session may have lost the primary role for a while, in the middle of the run, to any other session
		// that announced an id at least as high as the lowest it announced itself (the order is the schedule's)
		e.lostRole = map[int]bool{}
		for _, sn := range order {
			s := plans[sn].s
			for _, on := range order {
				o := plans[on].s
				if o == s {
					continue
				}
				for _, a := range s.announced {
					for _, b := range o.announced {
						if !less128(b, a) {
							e.lostRole[s.idx] = true
						}
					}
				}
			}
		}
		e.checkpoint(func() { e.afterQuiescenceChecks(nil) })
		e.lostRole = nil
		e.propOverride = ""
	}
	e.serviceProbe("C11", "after the concurrent run")
	if e.sc.Family == "conchook" {
		e.checkHooksAgainstImpl("after the service probe's Flush")
	}
}

// processResultsConc replays one session's results; operations rejected because the
// session was not the primary at that moment are legitimate FAILED results.
func (e *env) processResultsConc(s *session, rs []*spb.ModifyResponse) {
	for _, r := range rs {
		for _, res := range r.GetResult() {
			rec := s.sent[res.GetId()]
			if rec == nil {
				continue
			}
			if res.GetStatus() == spb.AFTResult_FAILED {
				// admission or content: both fine here (admission is checked by C04's families)
				if rec.state == opSent {
					rec.state = opFailed
					rec.electionFail = true
				}
				continue
			}
			e.applyVerdict(rec, res, false)
		}
	}
}
