package harness

import (
	"cmp"
	"fmt"
	"slices"
	"sort"

	aftpb "github.com/openconfig/gribi/v1/proto/gribi_aft"
	spb "github.com/openconfig/gribi/v1/proto/service"
	"github.com/openconfig/gribigo/aft"
	"github.com/openconfig/gribigo/rib"
	"google.golang.org/protobuf/encoding/prototext"
	"google.golang.org/protobuf/proto"
	"google.golang.org/protobuf/reflect/protoreflect"
)

// Snapshot is a set of installed entries, keyed like the model.
type Snapshot map[Key]proto.Message

// normalize returns a clone with keyed lists in canonical order, so that two
// messages describing the same YANG list compare equal.
func normalize(m proto.Message) proto.Message {
	c := proto.Clone(m)
	switch t := c.(type) {
	case *aftpb.Afts_NextHopGroupKey:
		if t.NextHopGroup != nil {
			nh := t.NextHopGroup.NextHop
			sort.SliceStable(nh, func(i, j int) bool { return nh[i].GetIndex() < nh[j].GetIndex() })
		}
	case *aftpb.Afts_NextHopKey:
		if t.NextHop != nil {
			eh := t.NextHop.EncapHeader
			sort.SliceStable(eh, func(i, j int) bool { return eh[i].GetIndex() < eh[j].GetIndex() })
		}
	}
	return c
}

// snapFromRIBContents renders RIBContents as a Snapshot. The conversion functions
// are instrumented code (they consume the scheduler's statement budget), so the
// entries are visited in a canonical order, not in Go's map order.
func snapFromRIBContents(rc map[string]*aft.RIB) (Snapshot, error) {
	s := Snapshot{}
	var nis []string
	for ni := range rc {
		nis = append(nis, ni)
	}
	sort.Strings(nis)
	for _, ni := range nis {
		a := rc[ni].GetAfts()
		if a == nil {
			continue
		}
		for _, k := range sortedKeys(a.NextHop) {
			p, err := rib.ConcreteNextHopProto(a.NextHop[k])
			if err != nil {
				return nil, err
			}
			s[Key{NI: ni, Kind: KNH, ID: p.GetIndex()}] = p
		}
		for _, k := range sortedKeys(a.NextHopGroup) {
			p, err := rib.ConcreteNextHopGroupProto(a.NextHopGroup[k])
			if err != nil {
				return nil, err
			}
			s[Key{NI: ni, Kind: KNHG, ID: p.GetId()}] = p
		}
		for _, k := range sortedKeys(a.Ipv4Entry) {
			p, err := rib.ConcreteIPv4Proto(a.Ipv4Entry[k])
			if err != nil {
				return nil, err
			}
			s[Key{NI: ni, Kind: KV4, Pfx: p.GetPrefix()}] = p
		}
		for _, k := range sortedKeys(a.Ipv6Entry) {
			p, err := rib.ConcreteIPv6Proto(a.Ipv6Entry[k])
			if err != nil {
				return nil, err
			}
			s[Key{NI: ni, Kind: KV6, Pfx: p.GetPrefix()}] = p
		}
		var labels []aft.Afts_LabelEntry_Label_Union
		for k := range a.LabelEntry {
			labels = append(labels, k)
		}
		sort.Slice(labels, func(i, j int) bool { return fmt.Sprint(labels[i]) < fmt.Sprint(labels[j]) })
		for _, k := range labels {
			p, err := rib.ConcreteMPLSProto(a.LabelEntry[k])
			if err != nil {
				return nil, err
			}
			s[Key{NI: ni, Kind: KMPLS, ID: p.GetLabelUint64()}] = p
		}
	}
	return s, nil
}

func sortedKeys[K cmp.Ordered, V any](m map[K]V) []K {
	ks := make([]K, 0, len(m))
	for k := range m {
		ks = append(ks, k)
	}
	slices.Sort(ks)
	return ks
}

// entryKey extracts the model key and the *Key message of one AFTEntry.
func entryKey(e *spb.AFTEntry) (Key, proto.Message, error) {
	ni := e.GetNetworkInstance()
	switch t := e.GetEntry().(type) {
	case *spb.AFTEntry_NextHop:
		return Key{NI: ni, Kind: KNH, ID: t.NextHop.GetIndex()}, t.NextHop, nil
	case *spb.AFTEntry_NextHopGroup:
		return Key{NI: ni, Kind: KNHG, ID: t.NextHopGroup.GetId()}, t.NextHopGroup, nil
	case *spb.AFTEntry_Ipv4:
		return Key{NI: ni, Kind: KV4, Pfx: t.Ipv4.GetPrefix()}, t.Ipv4, nil
	case *spb.AFTEntry_Ipv6:
		return Key{NI: ni, Kind: KV6, Pfx: t.Ipv6.GetPrefix()}, t.Ipv6, nil
	case *spb.AFTEntry_Mpls:
		return Key{NI: ni, Kind: KMPLS, ID: t.Mpls.GetLabelUint64()}, t.Mpls, nil
	}
	return Key{}, nil, fmt.Errorf("AFTEntry without a supported entry: %v", e)
}

// snapFromGet folds Get responses; dup lists keys returned more than once.
func snapFromGet(rs []*spb.GetResponse) (Snapshot, []Key, error) {
	s := Snapshot{}
	var dup []Key
	for _, r := range rs {
		for _, e := range r.GetEntry() {
			k, m, err := entryKey(e)
			if err != nil {
				return nil, nil, err
			}
			if _, ok := s[k]; ok {
				dup = append(dup, k)
			}
			s[k] = m
		}
	}
	return s, dup, nil
}

func modelSnapshot(m *Model, ni string, kind int) Snapshot {
	s := Snapshot{}
	for k, e := range m.Tab {
		if ni != "" && k.NI != ni {
			continue
		}
		if kind >= 0 && int(k.Kind) != kind {
			continue
		}
		s[k] = e.Msg
	}
	return s
}

type Diff struct {
	Key    Key
	What   string // "missing", "extra", "payload"
	Fields []string
	Want   string
	Got    string
}

func (d Diff) String() string {
	switch d.What {
	case "payload":
		return fmt.Sprintf("%s payload differs in %v: want {%s} got {%s}", d.Key, d.Fields, d.Want, d.Got)
	}
	return fmt.Sprintf("%s %s", d.Key, d.What)
}

func compact(m proto.Message) string {
	if m == nil {
		return "<nil>"
	}
	b, _ := prototext.MarshalOptions{Multiline: false}.Marshal(m)
	return string(b)
}

// diffSnap compares want (model) and got (implementation).
func diffSnap(want, got Snapshot) []Diff {
	var ds []Diff
	var ks []Key
	for k := range want {
		ks = append(ks, k)
	}
	for k := range got {
		if _, ok := want[k]; !ok {
			ks = append(ks, k)
		}
	}
	sortKeys(ks)
	for _, k := range ks {
		w, g := want[k], got[k]
		switch {
		case g == nil:
			ds = append(ds, Diff{Key: k, What: "missing"})
		case w == nil:
			ds = append(ds, Diff{Key: k, What: "extra", Got: compact(g)})
		default:
			nw, ng := normalize(w), normalize(g)
			if !proto.Equal(nw, ng) {
				ds = append(ds, Diff{Key: k, What: "payload", Fields: diffFields("", nw.ProtoReflect(), ng.ProtoReflect()), Want: compact(nw), Got: compact(ng)})
			}
		}
	}
	return ds
}

// diffFields lists the field paths in which two messages of the same type differ.
func diffFields(prefix string, a, b protoreflect.Message) []string {
	var out []string
	fds := a.Descriptor().Fields()
	for i := 0; i < fds.Len(); i++ {
		fd := fds.Get(i)
		name := prefix + string(fd.Name())
		ha, hb := a.Has(fd), b.Has(fd)
		if !ha && !hb {
			continue
		}
		if ha != hb {
			out = append(out, name)
			continue
		}
		va, vb := a.Get(fd), b.Get(fd)
		if fd.IsList() || fd.IsMap() || fd.Message() == nil {
			if !va.Equal(vb) {
				out = append(out, name)
			}
			continue
		}
		out = append(out, diffFields(name+".", va.Message(), vb.Message())...)
	}
	return out
}
