package harness

// Family "sess": sequential multi-session scripts over the whole Modify message
// alphabet (C04 admission, C05 election ordering, C09 session state machine).
// Every step is followed by an exact quiescent point at which the session FSM
// model, the election model and the RIB model are compared with the server.

import (
	"fmt"
	"math/rand/v2"
	"sort"

	aftpb "github.com/openconfig/gribi/v1/proto/gribi_aft"
	spb "github.com/openconfig/gribi/v1/proto/service"
	"google.golang.org/grpc/codes"
	"google.golang.org/grpc/status"

	"verifsim/simrt"
)

func init() {
	families["sess"] = &family{gen: genSess, run: runSess}
}

// msess is the model of one session.
type msess struct {
	alive     bool
	gotMsg    bool
	paramsSet bool
	single    bool
	preserve  bool
	fib       bool
	last      *[2]uint64
	prev      *[2]uint64
	// ambiguous: the model cannot tell whether a params message would still count as "first".
	ambiguous bool
}

type elecModel struct {
	max     *[2]uint64
	primary int // session index or -1
}

var lattice = []uint64{0, 1, 2, 1 << 63, ^uint64(0)}

func genID(r *rand.Rand) [2]uint64 {
	if r.IntN(5) == 0 {
		return [2]uint64{r.Uint64() >> uint(r.IntN(64)), r.Uint64() >> uint(r.IntN(64))}
	}
	return [2]uint64{lattice[r.IntN(len(lattice))], lattice[r.IntN(len(lattice))]}
}

func genSess(seed uint64, prop string) *Scenario {
	r := rand.New(rand.NewPCG(seed, 0x73657373))
	cfg := ScenCfg{Default: "DEFAULT", VRFs: []string{"VRF-A"}, FwdRefs: true, Policy: "coarse"}
	cfg.Window = []int{0, 1, 4}[r.IntN(3)]
	cfg.Bystander = r.IntN(2) == 0
	sc := &Scenario{Family: "sess", Seed: seed, Cfg: cfg}
	g := newGen(seed, 0x73657374, &sc.Cfg)
	nsess := 2 + r.IntN(3)
	nsteps := 4 + r.IntN(16)
	if deepSeed(seed) && r.IntN(3) == 0 {
		nsess, nsteps = 3+r.IntN(4), 20+r.IntN(40)
	}
	if r.IntN(4) == 0 {
		nsteps = 2 + r.IntN(4)
	}
	// weights by property
	wConnect, wParams, wElect, wOps, wMulti, wEmpty, wClose := 3, 3, 5, 5, 1, 1, 1
	badParams := 2 // in 8ths: probability that a params message is not the supported combination
	switch prop {
	case "C09":
		wMulti, wEmpty, wParams, wClose = 3, 1, 5, 2
		badParams = 4
	case "C05":
		wElect, wOps = 10, 3
		badParams = 0
	case "C04":
		wElect, wOps = 5, 9
		badParams = 0
	}
	connected := map[int]bool{}
	fibChoice := r.IntN(2)
	for i := 0; i < nsteps; i++ {
		s := r.IntN(nsess)
		if !connected[s] || g.weighted(wConnect, 20) == 0 {
			if !connected[s] {
				sc.Steps = append(sc.Steps, Step{T: "connect", Sess: s})
				connected[s] = true
				// usually negotiate straight away
				if r.IntN(8) != 0 {
					combo := 4 + 2 + fibChoice // SINGLE_PRIMARY, PRESERVE, ack
					if r.IntN(8) < badParams {
						combo = r.IntN(8)
					}
					sc.Steps = append(sc.Steps, Step{T: "params", Sess: s, A: combo})
				}
				continue
			}
		}
		switch g.weighted(wParams, wElect, wOps, wMulti, wEmpty, wClose) {
		case 0:
			combo := 4 + 2 + fibChoice
			if r.IntN(8) < badParams {
				combo = r.IntN(8)
			}
			sc.Steps = append(sc.Steps, Step{T: "params", Sess: s, A: combo})
		case 1:
			id := genID(r)
			st := Step{T: "elect", Sess: s, Elec: &id}
			// relative ids are resolved at run time: B=1 max, 2 max+1, 3 max-1, 4 own last
			if r.IntN(3) == 0 {
				st.B = 1 + r.IntN(4)
			}
			sc.Steps = append(sc.Steps, st)
		case 2:
			n := 1 + r.IntN(3)
			var ops []*spb.AFTOperation
			for j := 0; j < n; j++ {
				// simple, always-resolvable operations: the point is admission, not RIB semantics
				idx := uint64(1 + r.IntN(4))
				ni := g.ni()
				if r.IntN(3) == 0 {
					ops = append(ops, &spb.AFTOperation{Id: g.id(), NetworkInstance: ni, Op: spb.AFTOperation_DELETE, Entry: &spb.AFTOperation_NextHop{NextHop: &aftpb.Afts_NextHopKey{Index: idx}}})
				} else {
					ops = append(ops, &spb.AFTOperation{Id: g.id(), NetworkInstance: ni, Op: spb.AFTOperation_ADD, Entry: &spb.AFTOperation_NextHop{NextHop: g.nhPayload(idx)}})
				}
			}
			st := g.batchStep(s, ops)
			st.T = "ops"
			st.B = g.weighted(6, 2, 2, 2, 2, 1) // 0 own last, 1 stale own, 2 other's last, 3 max, 4 max+1, 5 unset
			if st.B == 0 && len(ops) >= 2 && r.IntN(3) == 0 {
				// mixed stamps inside ONE request: the operations whose bit is set carry a wrong id (future or stale), the
				// others the right one - each is judged on its own stamp
				st.A = 1 + r.IntN(1<<uint(len(ops))-2)
			}
			sc.Steps = append(sc.Steps, st)
		case 3:
			sc.Steps = append(sc.Steps, Step{T: "multi", Sess: s, A: r.IntN(4)})
		case 4:
			sc.Steps = append(sc.Steps, Step{T: "empty", Sess: s})
		case 5:
			sc.Steps = append(sc.Steps, Step{T: []string{"close", "cancel", "reset"}[r.IntN(3)], Sess: s})
			connected[s] = false
		}
	}
	return sc
}

// ---------------------------------------------------------------------------

type sessRun struct {
	e    *env
	ms   map[int]*msess   // by scenario session number
	ss   map[int]*session // live stream of that session number
	el   elecModel
	opID uint64
}

func comboParams(c int) *spb.SessionParameters {
	p := &spb.SessionParameters{}
	if c&4 != 0 {
		p.Redundancy = spb.SessionParameters_SINGLE_PRIMARY
	}
	if c&2 != 0 {
		p.Persistence = spb.SessionParameters_PRESERVE
	}
	if c&1 != 0 {
		p.AckType = spb.SessionParameters_RIB_AND_FIB_ACK
	}
	return p
}

type expectTerm struct {
	codes   []codes.Code
	reasons []spb.ModifyRPCErrorDetails_Reason // parallel to codes; 0 (UNKNOWN) = not checked
	anyCode bool                               // any non-OK status will do
	why     []string
}

func (x *expectTerm) add(c codes.Code, r spb.ModifyRPCErrorDetails_Reason, why string) {
	x.codes = append(x.codes, c)
	x.reasons = append(x.reasons, r)
	x.why = append(x.why, why)
}

func modifyReason(err error) spb.ModifyRPCErrorDetails_Reason {
	st, ok := status.FromError(err)
	if !ok {
		return 0
	}
	for _, d := range st.Details() {
		if md, ok := d.(*spb.ModifyRPCErrorDetails); ok {
			return md.GetReason()
		}
	}
	return 0
}

// checkTerm verifies that the RPC of s ended as the FSM model requires.
func (sr *sessRun) checkTerm(s *session, x *expectTerm, what string) {
	e := sr.e
	if !s.dead {
		e.report("C09", "violation-not-rejected", x.why[0], what+": the RPC is still open", false)
		return
	}
	if s.termErr == nil || s.termErr.Error() == "EOF" {
		e.report("C09", "violation-not-rejected", x.why[0], what+": the RPC ended with OK", false)
		return
	}
	if x.anyCode {
		return
	}
	c := status.Code(s.termErr)
	// the code must be one of the admissible ones, and with it the reason that goes with that code (several
	// violations may be present at once: any admissible (code, reason) pair will do)
	codeSeen, bad := false, -1
	for i, want := range x.codes {
		if c != want {
			continue
		}
		codeSeen = true
		if x.reasons[i] == 0 || modifyReason(s.termErr) == x.reasons[i] {
			return
		}
		bad = i
	}
	if codeSeen {
		e.report("C09", "wrong-reason", x.why[bad]+": ModifyRPCErrorDetails reason", fmt.Sprintf("%s: want %v got %v (%v)", what, x.reasons[bad], modifyReason(s.termErr), s.termErr), false)
		return
	}
	e.report("C09", "wrong-status", x.why[0]+": status code "+c.String(), fmt.Sprintf("%s: want one of %v got %v", what, x.codes, s.termErr), false)
}

func runSess(e *env) {
	e.setup()
	sr := &sessRun{e: e, ms: map[int]*msess{}, ss: map[int]*session{}, el: elecModel{primary: -1}}
	if e.sc.Cfg.Bystander {
		// (flag reused) an earlier, orderly session has left entries behind: every
		// violation below must leave them, and the election id it learnt, untouched
		prep := e.openSession([2]uint64{0, 1}, e.sc.Cfg.FIBAck)
		g := newGen(e.sc.Seed, 0x70726570, &e.sc.Cfg)
		st := g.batchStep(0, prepSteps(g)[0].ops()[:4])
		for i := range st.Ops {
			op := opFromJSON(st.Ops[i])
			op.Id += 700000
			st.Ops[i] = opJSON(op)
		}
		e.modify(prep, &st)
		prep.mc.CloseSend()
		prep.closed = true
		simrt.AwaitQuiescence("sess-prep-close")
		e.drainAndProcess(prep)
		prep.dead = true
		id := [2]uint64{0, 1}
		sr.el.max = &id
		sr.el.primary = -99
	}
	for i := range e.sc.Steps {
		st := &e.sc.Steps[i]
		e.step = i
		sr.step(st)
		simrt.AwaitQuiescence("sess-step")
		e.checkpoint(func() {
			sr.afterStep(st)
			e.afterQuiescenceChecks(nil)
		})
	}
	e.step = len(e.sc.Steps)
	// a fresh session must be able to negotiate whatever the survivors use (footprints are gone)
	sr.finalProbe()
}

func (sr *sessRun) liveOthers(n int) []*msess {
	var out []*msess
	var ks []int
	for k := range sr.ms {
		ks = append(ks, k)
	}
	sort.Ints(ks)
	for _, k := range ks {
		if k != n && sr.ms[k].alive {
			out = append(out, sr.ms[k])
		}
	}
	return out
}

func (sr *sessRun) kill(n int) {
	if m := sr.ms[n]; m != nil {
		m.alive = false
	}
	// the election state persists: if n was primary, nobody is until someone announces >= max
	if sr.el.primary == n {
		sr.el.primary = -2 - n // a dead session: remembered so that "primary" is not re-assigned silently
	}
}

func (sr *sessRun) send(s *session, req *spb.ModifyRequest) []*spb.ModifyResponse {
	if err := s.mc.Send(req); err != nil {
		s.dead = true
	}
	simrt.AwaitQuiescence("sess-send")
	rs, _ := sr.e.drain(s)
	return rs
}

func (sr *sessRun) step(st *Step) {
	e := sr.e
	n := st.Sess
	m := sr.ms[n]
	s := sr.ss[n]
	if st.T == "connect" {
		if m != nil && m.alive {
			return
		}
		sr.ms[n] = &msess{alive: true}
		ns := &session{idx: len(e.sess), sent: map[uint64]*opRec{}}
		ns.mc = e.net.OpenModify()
		e.sess = append(e.sess, ns)
		sr.ss[n] = ns
		return
	}
	if m == nil || !m.alive || s == nil {
		return // shrinking may have removed the connect step
	}
	what := fmt.Sprintf("step %d (%s on session %d)", e.step, st.T, n)
	switch st.T {
	case "params":
		p := comboParams(st.A)
		single, preserve, fib := st.A&4 != 0, st.A&2 != 0, st.A&1 != 0
		var x expectTerm
		if m.gotMsg && !m.ambiguous {
			x.add(codes.FailedPrecondition, 0, "session parameters sent after another message")
		}
		if !(single && preserve) {
			x.add(codes.Unimplemented, spb.ModifyRPCErrorDetails_UNSUPPORTED_PARAMS, "unsupported session parameters")
			x.add(codes.FailedPrecondition, spb.ModifyRPCErrorDetails_UNSUPPORTED_PARAMS, "unsupported session parameters")
		}
		differDefinite, differIdle := false, false
		for _, o := range sr.liveOthers(n) {
			if o.paramsSet {
				if o.single != single || o.preserve != preserve || o.fib != fib {
					differDefinite = true
				}
			} else if !o.gotMsg && !o.ambiguous {
				// A live session that has sent nothing holds the protocol's default parameters
				// (ALL_PRIMARY, DELETE, RIB_ACK), which no supported request equals: "identical to
				// those of every other live session" fails.
				differDefinite = true
			} else {
				differIdle = true // a session whose standing the model cannot tell
			}
		}
		if differDefinite {
			x.add(codes.FailedPrecondition, spb.ModifyRPCErrorDetails_PARAMS_DIFFER_FROM_OTHER_CLIENTS, "parameters differ from another live session")
		}
		rs := sr.send(s, &spb.ModifyRequest{Params: p})
		if len(x.codes) > 0 {
			e.probe("fsm: bad params rejected: " + x.why[0])
			if m.ambiguous || differIdle {
				x.add(codes.FailedPrecondition, 0, "ambiguous")
			}
			sr.checkTerm(s, &x, what)
			sr.kill(n)
			return
		}
		if s.dead {
			if (differIdle || m.ambiguous) && status.Code(s.termErr) == codes.FailedPrecondition {
				e.probe("fsm: params rejected because of an un-negotiated live session")
				sr.kill(n)
				return
			}
			e.report("C09", "negotiation-failed", "supported first params rejected", fmt.Sprintf("%s: %v", what, s.termErr), false)
			sr.kill(n)
			return
		}
		if len(rs) != 1 || rs[0].GetSessionParamsResult().GetStatus() != spb.SessionParametersResult_OK {
			e.report("C09", "negotiation-failed", "no SessionParametersResult OK", fmt.Sprintf("%s: %v", what, rs), false)
		}
		m.gotMsg, m.paramsSet, m.single, m.preserve, m.fib = true, true, single, preserve, fib
		s.fibAck = fib
	case "elect":
		id := *st.Elec
		switch st.B {
		case 1:
			if sr.el.max != nil {
				id = *sr.el.max
			}
		case 2:
			if sr.el.max != nil {
				id = add128(*sr.el.max, 1)
			}
		case 3:
			if sr.el.max != nil {
				id = sub128(*sr.el.max, 1)
			}
		case 4:
			if m.last != nil {
				id = *m.last
			}
		}
		var x expectTerm
		if !m.single {
			x.add(codes.FailedPrecondition, spb.ModifyRPCErrorDetails_ELECTION_ID_IN_ALL_PRIMARY, "election id from a session that has not negotiated SINGLE_PRIMARY")
		}
		if id == [2]uint64{0, 0} {
			x.add(codes.InvalidArgument, 0, "zero election id")
		}
		rs := sr.send(s, &spb.ModifyRequest{ElectionId: uint128(id)})
		if len(x.codes) > 0 {
			e.probe("fsm: bad election rejected: " + x.why[0])
			sr.checkTerm(s, &x, what)
			sr.kill(n)
			return
		}
		if s.dead {
			e.report("C05", "election-rejected", "valid announcement ended the RPC", fmt.Sprintf("%s id %v: %v", what, id, s.termErr), false)
			sr.kill(n)
			return
		}
		m.gotMsg = true
		m.prev = m.last
		m.last = &id
		switch {
		case sr.el.max == nil || !less128(id, *sr.el.max):
			if sr.el.max != nil && id == *sr.el.max {
				e.probe("election: equal id announced")
			}
			if sr.el.max != nil && id[0] != sr.el.max[0] && (id[1] < sr.el.max[1]) != (id[0] < sr.el.max[0]) {
				e.probe("election: words of the two ids order differently")
			}
			nid := id
			sr.el.max = &nid
			sr.el.primary = n
		default:
			e.probe("election: lower id announced")
			if id[1] > sr.el.max[1] {
				e.probe("election: lower id with a larger low word")
			}
		}
		e.maxElec = *sr.el.max
		got := (*spb.Uint128)(nil)
		if len(rs) == 1 {
			got = rs[0].GetElectionId()
		}
		if got == nil || got.High != sr.el.max[0] || got.Low != sr.el.max[1] {
			e.report("C05", "reported-id-not-max", "election response does not carry the maximum id announced so far", fmt.Sprintf("%s: announced %v, maximum so far %v, server reported %v", what, id, *sr.el.max, got), false)
		}
	case "ops":
		ops := st.ops()
		var stamp *[2]uint64
		switch st.B {
		case 0:
			stamp = m.last
		case 1:
			stamp = m.prev
		case 2:
			for _, o := range sr.liveOthers(n) {
				if o.last != nil {
					stamp = o.last
				}
			}
		case 3:
			stamp = sr.el.max
		case 4:
			if sr.el.max != nil {
				v := add128(*sr.el.max, 1)
				stamp = &v
			}
		}
		admitted := m.single && m.preserve && stamp != nil && m.last != nil && sr.el.max != nil &&
			sr.el.primary == n && *stamp == *m.last && *stamp == *sr.el.max
		wrong := map[uint64]bool{}
		for i, op := range ops {
			op.ElectionId = nil
			if stamp != nil {
				op.ElectionId = uint128(*stamp)
			}
			if admitted && st.A&(1<<uint(i)) != 0 && i < 30 {
				bad := add128(*stamp, 1) // a future id
				if m.prev != nil && *m.prev != *stamp && i%2 == 1 {
					bad = *m.prev // a stale one
				}
				op.ElectionId = uint128(bad)
				wrong[op.GetId()] = true
			}
			e.opSeq++
			rec := &opRec{op: op, sess: s.idx, seq: e.opSeq}
			s.sent[op.GetId()] = rec
			e.allOps[op.GetId()] = rec
		}
		rs := sr.send(s, &spb.ModifyRequest{Operation: ops})
		m.gotMsg = true
		if admitted && len(wrong) > 0 {
			// the wrongly stamped ones must be FAILED without a trace; the others go through the ordinary oracle
			e.probe("admission: right and wrong stamps mixed in one request")
			var rest []*spb.ModifyResponse
			for _, r := range rs {
				keep := &spb.ModifyResponse{}
				for _, res := range r.GetResult() {
					rec := s.sent[res.GetId()]
					switch {
					case rec != nil && wrong[res.GetId()]:
						if res.GetStatus() != spb.AFTResult_FAILED {
							e.report("C04", "inadmissible-accepted", "operation stamped with an id that is not the session's last announced id (among correctly stamped ones)", fmt.Sprintf("%s: %s answered %s", what, describeOp(rec.op), res.GetStatus()), false)
						}
						rec.state = opFailed
					case rec != nil && res.GetStatus() == spb.AFTResult_FAILED:
						if v, _, _ := e.model.Expect(rec.op); v == VProgram {
							e.report("C04", "admissible-rejected", "a correctly stamped operation of the primary was FAILED because another operation of the same request carried a wrong id", fmt.Sprintf("%s: %s", what, describeOp(rec.op)), false)
						}
						keep.Result = append(keep.Result, res)
					default:
						keep.Result = append(keep.Result, res)
					}
				}
				if len(keep.Result) > 0 || len(r.GetResult()) == 0 {
					rest = append(rest, keep)
				}
			}
			for id := range wrong {
				if rec := s.sent[id]; rec != nil && rec.state == opSent && !s.dead {
					e.report("C04", "inadmissible-unanswered", "wrongly stamped operation among correctly stamped ones", fmt.Sprintf("%s: %s got neither FAILED nor an RPC error", what, describeOp(rec.op)), false)
					rec.state = opFailed
				}
			}
			e.processResults(s, rest)
			if s.dead {
				e.checkTermination(s, s.termErr)
				sr.kill(n)
			}
			return
		}
		if admitted {
			e.probe("admission: primary's correctly stamped operations")
			e.processResults(s, rs)
			if s.dead {
				e.checkTermination(s, s.termErr)
				sr.kill(n)
			}
			return
		}
		why := "operation from a session that is not the primary or with a mismatching election id"
		switch {
		case !(m.single && m.preserve):
			why = "operation from a session that has not negotiated SINGLE_PRIMARY/PRESERVE"
		case stamp == nil:
			why = "operation without election id"
		case m.last == nil:
			why = "operation from a session that never announced an election id"
		case sr.el.primary != n:
			why = "operation from a session that is not the primary"
			e.probe("admission: non-primary operation")
		case *stamp != *m.last:
			why = "operation stamped with an id that is not the session's last announced id"
			e.probe("admission: stale or foreign stamp from the primary")
		}
		// every operation must be FAILED, or the RPC must have ended with an error
		for _, r := range rs {
			for _, res := range r.GetResult() {
				rec := s.sent[res.GetId()]
				if rec == nil {
					e.report("C06", "unknown-result", "result for an id never sent", fmt.Sprint(res), false)
					continue
				}
				if res.GetStatus() != spb.AFTResult_FAILED {
					e.report("C04", "inadmissible-accepted", why, fmt.Sprintf("%s: %s answered %s", what, describeOp(rec.op), res.GetStatus()), false)
					continue
				}
				rec.state = opFailed
			}
		}
		if s.dead {
			if s.termErr == nil || s.termErr.Error() == "EOF" {
				e.report("C09", "violation-not-rejected", why, what+": RPC ended with OK", false)
			}
			if !(m.single && m.preserve) {
				if c := status.Code(s.termErr); c != codes.Unimplemented && c != codes.FailedPrecondition {
					e.report("C09", "wrong-status", why+": status code "+c.String(), fmt.Sprintf("%s: %v", what, s.termErr), false)
				}
			}
			sr.kill(n)
			for _, rec := range s.sent {
				if rec.state == opSent {
					rec.state = opFailed
					rec.unacked = true
				}
			}
			return
		}
		if !(m.single && m.preserve) || stamp == nil {
			// C09: an operation without an election id, or from a session that has not
			// negotiated SINGLE_PRIMARY, ends the RPC - an in-band FAILED is not enough
			e.report("C09", "violation-not-rejected", why, what+": the RPC is still open", false)
		}
		for _, rec := range s.sent {
			if rec.state == opSent {
				e.report("C04", "inadmissible-unanswered", why, fmt.Sprintf("%s: %s got neither FAILED nor an RPC error", what, describeOp(rec.op)), false)
				rec.state = opFailed
			}
		}
	case "multi":
		req := &spb.ModifyRequest{}
		id := [2]uint64{0, 7}
		op := &spb.AFTOperation{Id: 900000 + uint64(e.step), NetworkInstance: e.sc.Cfg.Default, Op: spb.AFTOperation_ADD, ElectionId: uint128(id),
			Entry: &spb.AFTOperation_NextHop{NextHop: &aftpb.Afts_NextHopKey{Index: 4, NextHop: &aftpb.Afts_NextHop{}}}}
		switch st.A {
		case 0:
			req.Params, req.ElectionId = comboParams(6), uint128(id)
		case 1:
			req.Params, req.Operation = comboParams(6), []*spb.AFTOperation{op}
		case 2:
			req.ElectionId, req.Operation = uint128(id), []*spb.AFTOperation{op}
		default:
			req.Params, req.ElectionId, req.Operation = comboParams(6), uint128(id), []*spb.AFTOperation{op}
		}
		sr.send(s, req)
		var x expectTerm
		x.add(codes.InvalidArgument, 0, "message populating more than one of params / election id / operation")
		e.probe("fsm: multi-field message")
		sr.checkTerm(s, &x, what)
		sr.kill(n)
	case "empty":
		sr.send(s, &spb.ModifyRequest{})
		if s.dead {
			if s.termErr == nil || s.termErr.Error() == "EOF" {
				e.report("C09", "violation-not-rejected", "empty message ended the RPC with OK", what, false)
			}
			sr.kill(n)
		} else {
			m.ambiguous = true
		}
	case "close", "cancel", "reset":
		switch st.T {
		case "close":
			s.mc.CloseSend()
		case "cancel":
			s.mc.Stream().Cancel()
		default:
			s.mc.Stream().Reset()
		}
		simrt.AwaitQuiescence("sess-close")
		e.drain(s)
		if st.T == "close" && s.dead && s.termErr != nil && s.termErr.Error() != "EOF" {
			e.report("C10", "clean-close-error", "half-closed session ended with an error", fmt.Sprintf("%s: %v", what, s.termErr), false)
		}
		s.dead = true
		sr.kill(n)
	}
}

func add128(a [2]uint64, d uint64) [2]uint64 {
	lo := a[1] + d
	hi := a[0]
	if lo < a[1] {
		hi++
	}
	return [2]uint64{hi, lo}
}

func sub128(a [2]uint64, d uint64) [2]uint64 {
	lo := a[1] - d
	hi := a[0]
	if lo > a[1] {
		hi--
	}
	return [2]uint64{hi, lo}
}

// afterStep: no session other than the acting one may have been disturbed, the
// session table holds exactly the live sessions, the election state is the model's.
func (sr *sessRun) afterStep(st *Step) {
	e := sr.e
	live, spoken := 0, 0
	var ks []int
	for k := range sr.ms {
		ks = append(ks, k)
	}
	sort.Ints(ks)
	for _, k := range ks {
		m, s := sr.ms[k], sr.ss[k]
		if !m.alive {
			continue
		}
		live++
		if m.gotMsg {
			spoken++
		}
		if k == st.Sess {
			continue
		}
		// peek without consuming: a bystander must have nothing queued and must be open
		if s.mc.Stream().Dead() {
			e.report("C09", "bystander-terminated", "another session's RPC ended", fmt.Sprintf("after step %d (%s on session %d) session %d ended: %v", e.step, st.T, st.Sess, k, s.mc.Stream().Result()), false)
			m.alive = false
			live--
			if m.gotMsg {
				spoken--
			}
		} else if s.mc.Stream().QueuedToClient() > 0 {
			e.report("C09", "bystander-message", "another session received a message", fmt.Sprintf("after step %d (%s on session %d) session %d has %d unsolicited responses", e.step, st.T, st.Sess, k, s.mc.Stream().QueuedToClient()), false)
		}
	}
	// (sessions that are gone leave nothing behind; whether a stream that is connected but has said nothing has
	// an entry of its own yet is the server's business)
	if got := len(e.srv.VerifSessions()); got > live || got < spoken {
		e.report("C09", "session-footprint", "session table size differs from the number of live sessions", fmt.Sprintf("after step %d (%s on session %d): server tracks %d sessions, %d are live (%d of them have sent something)", e.step, st.T, st.Sess, got, live, spoken), false)
	}
	id, master := e.srv.VerifElection()
	switch {
	case sr.el.max == nil && id != nil:
		e.report("C09", "election-side-effect", "server learnt an election id nobody validly announced", fmt.Sprint(id), false)
	case sr.el.max != nil && (id == nil || id.High != sr.el.max[0] || id.Low != sr.el.max[1]):
		e.report("C05", "election-state", "highest learnt id differs from the maximum announced", fmt.Sprintf("after step %d: model %v, server %v", e.step, *sr.el.max, id), false)
	}
	// primary: if the model's primary is alive, the server's master must be a live session whose last id == max
	if sr.el.primary >= 0 && sr.ms[sr.el.primary].alive {
		// (the primary may since have announced a lower id: that does not unseat it)
		vs, ok := e.srv.VerifSessions()[master]
		pl := sr.ms[sr.el.primary].last
		if !ok || vs.LastElecID == nil || pl == nil || vs.LastElecID.High != pl[0] || vs.LastElecID.Low != pl[1] {
			e.report("C05", "primary-state", "the server's primary is not the session that last announced the maximum", fmt.Sprintf("after step %d: model primary session %d (last announced %v, maximum %v); server master %q %+v", e.step, sr.el.primary, pl, sr.el.max, master, vs), false)
		}
	}
}

// finalProbe: a fresh session negotiating the parameters of the survivors (or the
// supported default when none survives) must be accepted and able to win.
func (sr *sessRun) finalProbe() {
	e := sr.e
	fib := false
	negotiatedOthers, idleOthers := false, false
	for _, m := range sr.liveOthers(-1) {
		if m.paramsSet {
			negotiatedOthers = true
			fib = m.fib
			if !(m.single && m.preserve) {
				return
			}
		} else {
			idleOthers = true
		}
	}
	_ = negotiatedOthers
	if idleOthers {
		return // an un-negotiated live session may legitimately block negotiation (ambiguous in the specification)
	}
	id := [2]uint64{^uint64(0), ^uint64(0)}
	s := &session{idx: len(e.sess), sent: map[uint64]*opRec{}, fibAck: fib}
	s.mc = e.net.OpenModify()
	e.sess = append(e.sess, s)
	c := 6
	if fib {
		c = 7
	}
	s.mc.Send(&spb.ModifyRequest{Params: comboParams(c)})
	s.mc.Send(&spb.ModifyRequest{ElectionId: uint128(id)})
	idx := uint64(3)
	op := &spb.AFTOperation{Id: 990001, NetworkInstance: e.sc.Cfg.Default, Op: spb.AFTOperation_ADD, ElectionId: uint128(id),
		Entry: &spb.AFTOperation_NextHop{NextHop: &aftpb.Afts_NextHopKey{Index: idx, NextHop: &aftpb.Afts_NextHop{IpAddress: sv("192.0.2.254")}}}}
	rec := &opRec{op: op, sess: s.idx}
	s.sent[op.Id] = rec
	e.allOps[op.Id] = rec
	s.mc.Send(&spb.ModifyRequest{Operation: []*spb.AFTOperation{op}})
	simrt.AwaitQuiescence("final-probe")
	rs, term := e.drain(s)
	if term != nil {
		e.report("C09", "footprint-blocks-new-session", "a fresh session with supported parameters was rejected", fmt.Sprintf("%v (live sessions in model: %d)", term, len(sr.liveOthers(-1))), false)
		return
	}
	e.maxElec = id
	e.processResults(s, rs)
	if rec.state != opProgrammed {
		e.report("C04", "primary-rejected", "operation of a fresh session announcing the highest possible id was not programmed", fmt.Sprint(rs), false)
	}
	e.checkpoint(func() { e.afterQuiescenceChecks(nil) })
}
