package harness

import (
	"fmt"
	"reflect"

	"github.com/openconfig/gribigo/aft"
	"github.com/openconfig/gribigo/constants"
	"github.com/openconfig/gribigo/rib"
	"github.com/openconfig/ygot/ygot"
	"google.golang.org/protobuf/proto"
)

// keyOfStruct renders a hook's ygot struct as the model key and proto payload.
func keyOfStruct(ni string, data ygot.ValidatedGoStruct) (Key, proto.Message, error) {
	if data == nil || reflect.ValueOf(data).IsNil() {
		return Key{}, nil, fmt.Errorf("nil entry")
	}
	switch t := data.(type) {
	case *aft.Afts_Ipv4Entry:
		p, err := rib.ConcreteIPv4Proto(t)
		if err != nil {
			return Key{}, nil, err
		}
		return Key{NI: ni, Kind: KV4, Pfx: p.GetPrefix()}, p, nil
	case *aft.Afts_Ipv6Entry:
		p, err := rib.ConcreteIPv6Proto(t)
		if err != nil {
			return Key{}, nil, err
		}
		return Key{NI: ni, Kind: KV6, Pfx: p.GetPrefix()}, p, nil
	case *aft.Afts_LabelEntry:
		p, err := rib.ConcreteMPLSProto(t)
		if err != nil {
			return Key{}, nil, err
		}
		return Key{NI: ni, Kind: KMPLS, ID: p.GetLabelUint64()}, p, nil
	case *aft.Afts_NextHopGroup:
		p, err := rib.ConcreteNextHopGroupProto(t)
		if err != nil {
			return Key{}, nil, err
		}
		return Key{NI: ni, Kind: KNHG, ID: p.GetId()}, p, nil
	case *aft.Afts_NextHop:
		p, err := rib.ConcreteNextHopProto(t)
		if err != nil {
			return Key{}, nil, err
		}
		return Key{NI: ni, Kind: KNH, ID: p.GetIndex()}, p, nil
	}
	return Key{}, nil, fmt.Errorf("unexpected type %T", data)
}

// resolvedHook checks the resolved-entry notification contract (C16, second
// sentence) and then scribbles over its copy to test that it is private.
func (e *env) resolvedHook(ribs map[string]*aft.RIB, ot constants.OpType, ni string, a constants.AFT, key any, _ ...rib.ResolvedDetails) {
	if e.sc.Cfg.Policy == "corelease" {
		return // race runs: hook goroutines really run in parallel and the harness keeps no shared state there
	}
	e.resolvedCalls++
	r := ribs[ni]
	present := false
	if r != nil && r.Afts != nil {
		switch a {
		case constants.IPv4:
			_, present = r.Afts.Ipv4Entry[key.(string)]
		case constants.IPv6:
			_, present = r.Afts.Ipv6Entry[key.(string)]
		case constants.MPLS:
			switch k := key.(type) {
			case uint64:
				_, present = r.Afts.LabelEntry[aft.UnionUint32(uint32(k))]
			case aft.Afts_LabelEntry_Label_Union:
				_, present = r.Afts.LabelEntry[k]
			}
		}
	}
	switch {
	case ot == constants.Add && !present:
		e.hookErr = append(e.hookErr, fmt.Sprintf("resolved ADD %s %v %v: snapshot lacks the entry", ni, a, key))
	case ot == constants.Delete && present:
		e.hookErr = append(e.hookErr, fmt.Sprintf("resolved DELETE %s %v %v: snapshot still has the entry", ni, a, key))
	}
	// privacy: destroy the copy; the server must not notice.
	for _, rr := range ribs {
		if rr != nil && rr.Afts != nil {
			for k := range rr.Afts.Ipv4Entry {
				delete(rr.Afts.Ipv4Entry, k)
			}
			for k := range rr.Afts.Ipv6Entry {
				delete(rr.Afts.Ipv6Entry, k)
			}
			for k := range rr.Afts.LabelEntry {
				delete(rr.Afts.LabelEntry, k)
			}
			for k, g := range rr.Afts.NextHopGroup {
				g.NextHop = nil
				delete(rr.Afts.NextHopGroup, k)
			}
			for k, n := range rr.Afts.NextHop {
				n.IpAddress = nil
				delete(rr.Afts.NextHop, k)
			}
		}
	}
}
