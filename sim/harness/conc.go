package harness

// Family "elecconc": 2-4 sessions announce election ids and probe admission
// concurrently, with statement-level preemption inside the handlers. The
// recorded history (call/return stamped with a global event counter) is checked
// for linearizability against the (maximum id, primary) model with porcupine.

import (
	"fmt"
	"math/rand/v2"
	"sort"
	"time"

	"github.com/anishathalye/porcupine"
	aftpb "github.com/openconfig/gribi/v1/proto/gribi_aft"
	spb "github.com/openconfig/gribi/v1/proto/service"

	"verifsim/simrt"
)

func init() {
	families["elecconc"] = &family{gen: genElecConc, run: runElecConc}
}

func genElecConc(seed uint64, prop string) *Scenario {
	r := rand.New(rand.NewPCG(seed, 0x656c6563))
	cfg := ScenCfg{Default: "DEFAULT", FwdRefs: true}
	cfg.Policy = []string{"fine", "fine", "pct", "coarse"}[r.IntN(4)]
	cfg.PCTDepth = 1 + r.IntN(3)
	cfg.Window = []int{0, 0, 1}[r.IntN(3)]
	sc := &Scenario{Family: "elecconc", Seed: seed, Cfg: cfg}
	nsess := 2 + r.IntN(3)
	base := genID(r)
	for s := 0; s < nsess; s++ {
		n := 1 + r.IntN(3)
		for i := 0; i < n; i++ {
			if i > 0 && r.IntN(3) == 0 {
				sc.Steps = append(sc.Steps, Step{T: "probe", Sess: s})
				continue
			}
			var id [2]uint64
			switch r.IntN(4) {
			case 0:
				id = genID(r)
			case 1:
				id = base // ties between sessions
			default:
				id = add128(base, uint64(r.IntN(4)))
			}
			if id == [2]uint64{0, 0} {
				id = [2]uint64{0, 1}
			}
			sc.Steps = append(sc.Steps, Step{T: "announce", Sess: s, Elec: &id})
		}
		if r.IntN(2) == 0 {
			sc.Steps = append(sc.Steps, Step{T: "probe", Sess: s})
		}
		if r.IntN(2) == 0 {
			// the session leaves while others may still be announcing
			sc.Steps = append(sc.Steps, Step{T: "leave", Sess: s, A: r.IntN(2)})
		}
	}
	return sc
}

const maxConcSess = 4

type elecState struct {
	has     bool
	max     [2]uint64
	primary int
	lastHas [maxConcSess]bool
	last    [maxConcSess][2]uint64
}

type elecIn struct {
	sess     int
	announce bool
	id       [2]uint64
}

type elecOut struct {
	reported [2]uint64
	accepted bool
}

var elecPorcupine = porcupine.Model{
	Init: func() interface{} { return elecState{primary: -1} },
	Step: func(state, input, output interface{}) (bool, interface{}) {
		st := state.(elecState)
		in := input.(elecIn)
		out := output.(elecOut)
		if in.announce {
			st.lastHas[in.sess] = true
			st.last[in.sess] = in.id
			if !st.has || !less128(in.id, st.max) {
				st.has, st.max, st.primary = true, in.id, in.sess
			}
			return out.reported == st.max, st
		}
		want := st.has && st.primary == in.sess && st.lastHas[in.sess] && st.last[in.sess] == st.max
		return out.accepted == want, st
	},
	DescribeOperation: func(input, output interface{}) string {
		in := input.(elecIn)
		out := output.(elecOut)
		if in.announce {
			return fmt.Sprintf("s%d announce %v -> reported %v", in.sess, in.id, out.reported)
		}
		return fmt.Sprintf("s%d probe -> accepted=%v", in.sess, out.accepted)
	},
}

func runElecConc(e *env) {
	e.setup()
	bySess := map[int][]*Step{}
	var order []int
	for i := range e.sc.Steps {
		st := &e.sc.Steps[i]
		if st.Sess >= maxConcSess {
			continue
		}
		if _, ok := bySess[st.Sess]; !ok {
			order = append(order, st.Sess)
		}
		bySess[st.Sess] = append(bySess[st.Sess], st)
	}
	sort.Ints(order)
	var clock int64
	tick := func() int64 { clock++; return clock }
	var hist []porcupine.Operation
	var anns [][2]uint64
	done := 0
	var failures []string
	// sessions negotiate first (sequentially), so that parameter consistency is not what is being raced
	streams := map[int]*session{}
	for _, sn := range order {
		s := &session{idx: len(e.sess), sent: map[uint64]*opRec{}}
		s.mc = e.net.OpenModify()
		e.sess = append(e.sess, s)
		streams[sn] = s
		s.mc.Send(&spb.ModifyRequest{Params: comboParams(6)})
		simrt.AwaitQuiescence("conc-params")
		if rs, term := e.drain(s); term != nil || len(rs) != 1 {
			e.report("C09", "negotiation-failed", "supported params rejected", fmt.Sprint(term), false)
		}
	}
	for _, sn := range order {
		sn := sn
		s := streams[sn]
		steps := bySess[sn]
		simrt.Go("conc-session", func() {
			defer func() { done++ }()
			var last *[2]uint64
			for k, st := range steps {
				switch st.T {
				case "announce":
					id := *st.Elec
					call := tick()
					s.mc.Send(&spb.ModifyRequest{ElectionId: uint128(id)})
					r, err := s.mc.RecvTimeout(10 * time.Minute)
					ret := tick()
					if err != nil || r.GetElectionId() == nil {
						failures = append(failures, fmt.Sprintf("session %d announce %v: %v %v", sn, id, r, err))
						return
					}
					last = &id
					anns = append(anns, id)
					hist = append(hist, porcupine.Operation{ClientId: sn, Input: elecIn{sess: sn, announce: true, id: id}, Call: call, Output: elecOut{reported: [2]uint64{r.GetElectionId().GetHigh(), r.GetElectionId().GetLow()}}, Return: ret})
				case "leave":
					if st.A == 0 {
						s.mc.CloseSend()
					} else {
						s.mc.Stream().Cancel()
					}
					s.closed = true
					e.probe("session left while others were active")
					return
				case "probe":
					if last == nil {
						continue
					}
					opid := uint64(1000*(sn+1) + k)
					op := &spb.AFTOperation{Id: opid, NetworkInstance: e.sc.Cfg.Default, Op: spb.AFTOperation_ADD, ElectionId: uint128(*last),
						Entry: &spb.AFTOperation_NextHop{NextHop: &aftpb.Afts_NextHopKey{Index: uint64(10*(sn+1) + k), NextHop: &aftpb.Afts_NextHop{IpAddress: sv("192.0.2.9")}}}}
					call := tick()
					s.mc.Send(&spb.ModifyRequest{Operation: []*spb.AFTOperation{op}})
					r, err := s.mc.RecvTimeout(10 * time.Minute)
					ret := tick()
					if err != nil || len(r.GetResult()) != 1 || r.GetResult()[0].GetId() != opid {
						failures = append(failures, fmt.Sprintf("session %d probe: %v %v", sn, r, err))
						return
					}
					acc := r.GetResult()[0].GetStatus() == spb.AFTResult_RIB_PROGRAMMED
					if acc {
						e.probe("concurrent probe accepted")
					} else {
						e.probe("concurrent probe rejected")
					}
					hist = append(hist, porcupine.Operation{ClientId: sn, Input: elecIn{sess: sn}, Call: call, Output: elecOut{accepted: acc}, Return: ret})
				}
			}
		})
	}
	if !simrt.WaitUntil("conc-join", "all sessions finished", time.Hour, func() bool { return done == len(order) }) {
		e.report("C11", "unanswered", "a session did not get its response", e.sim.Describe(), false)
	}
	simrt.AwaitQuiescence("conc-end")
	if len(failures) > 0 {
		e.report("C11", "unanswered", "announcement or probe got no proper response", fmt.Sprint(failures)+"\n"+e.sim.Describe(), false)
	}
	// overlapping operations?
	overlap := false
	for i := range hist {
		for j := range hist {
			if i != j && hist[i].Call < hist[j].Call && hist[j].Call < hist[i].Return {
				overlap = true
			}
		}
	}
	if overlap {
		e.probe("history with overlapping operations")
	}
	res := porcupine.CheckOperationsTimeout(elecPorcupine, hist, 20*time.Second)
	switch res {
	case porcupine.Illegal:
		var lines []string
		sort.Slice(hist, func(i, j int) bool { return hist[i].Call < hist[j].Call })
		for _, h := range hist {
			lines = append(lines, fmt.Sprintf("[%d,%d] %s", h.Call, h.Return, elecPorcupine.DescribeOperation(h.Input, h.Output)))
		}
		hasProbe := false
		for _, h := range hist {
			if !h.Input.(elecIn).announce {
				hasProbe = true
			}
		}
		e.checkpoint(func() {
			e.report("C05", "not-linearizable", "election history has no linearization against the (maximum, primary) model", fmt.Sprint(lines), false)
			e.report("C11", "not-linearizable", "concurrent election history has no linearization", fmt.Sprint(lines), false)
			if hasProbe {
				e.report("C04", "not-linearizable", "admission decisions have no linearization against the election model", fmt.Sprint(lines), false)
			}
		})
	case porcupine.Unknown:
		e.probe("porcupine timed out (inconclusive)")
	}
	// quiescent state: the server's id is the maximum announced
	if len(anns) > 0 {
		mx := anns[0]
		for _, a := range anns[1:] {
			if less128(mx, a) {
				mx = a
			}
		}
		id, master := e.srv.VerifElection()
		if id == nil || id.High != mx[0] || id.Low != mx[1] {
			e.checkpoint(func() {
				e.report("C05", "election-state", "highest learnt id differs from the maximum announced", fmt.Sprintf("maximum announced %v, server %v", mx, id), false)
				e.report("C11", "quiescent-election", "reported election id is not the maximum announced", fmt.Sprintf("maximum announced %v, server %v", mx, id), false)
			})
		} else if vs, ok := e.srv.VerifSessions()[master]; !ok {
			left := false
			for _, s := range streams {
				if s.closed {
					left = true
				}
			}
			if !left {
				e.report("C11", "quiescent-election", "primary is not a live session although nobody left", master, false)
			}
		} else {
			// the primary must be a session that announced the maximum at some point
			_ = vs
		}
	}
}
