package harness

import (
	"net/netip"
	"regexp"
	"unicode/utf8"

	"google.golang.org/protobuf/proto"
	"google.golang.org/protobuf/reflect/protoreflect"
)

// The model is strict (an operation classified Valid must be programmed when it
// resolves) only for payloads of an ordinary, well-understood shape. Anything
// else - odd strings, huge integers, undefined enum numbers, nil list elements,
// duplicate keys - is Unspecified: the properties do not say whether such an
// operation is accepted, only that it is handled without crash, hang or trace
// when rejected. Over-approximating Unspecified is sound (it only relaxes).

var (
	reMAC   = regexp.MustCompile(`^([0-9a-f]{2}:){5}[0-9a-f]{2}$`)
	reName  = regexp.MustCompile(`^[A-Za-z0-9/_.:-]{1,40}$`)
	uintMax = map[string]uint64{"dscp": 63, "ip_ttl": 255, "src_udp_port": 65535, "dst_udp_port": 65535}
)

// ordinaryPayload reports whether m contains only ordinary content; why names the first oddity.
func (md *Model) ordinaryPayload(m proto.Message) (bool, string) {
	if m == nil || !m.ProtoReflect().IsValid() {
		return true, ""
	}
	return md.ordinaryMsg(m.ProtoReflect(), "")
}

func (md *Model) ordinaryMsg(m protoreflect.Message, path string) (ok bool, why string) {
	ok = true
	m.Range(func(fd protoreflect.FieldDescriptor, v protoreflect.Value) bool {
		name := string(fd.Name())
		check := func(v protoreflect.Value) bool {
			switch fd.Kind() {
			case protoreflect.StringKind:
				s := v.String()
				switch {
				case !utf8.ValidString(s):
					ok, why = false, path+name+": invalid UTF-8"
				case name == "value" || name == "prefix":
					// wrapper value: judged by the enclosing field (see below)
				}
			case protoreflect.EnumKind:
				if fd.Enum().Values().ByNumber(v.Enum()) == nil {
					ok, why = false, path+name+": undefined enum number"
				}
			case protoreflect.Uint64Kind, protoreflect.Uint32Kind:
				if v.Uint() > 0xffffffff {
					ok, why = false, path+name+": integer above 2^32-1"
				}
			case protoreflect.MessageKind, protoreflect.GroupKind:
				sub := v.Message()
				if !sub.IsValid() {
					ok, why = false, path+name+": nil list element"
					return false
				}
				// wrapper messages: judge the wrapped scalar by the field that holds it
				switch sub.Descriptor().FullName() {
				case "ywrapper.StringValue":
					s := sub.Get(sub.Descriptor().Fields().ByName("value")).String()
					if !md.ordinaryString(name, s) {
						ok, why = false, path+name+": unusual string"
					}
				case "ywrapper.UintValue":
					n := sub.Get(sub.Descriptor().Fields().ByName("value")).Uint()
					lim := uint64(0xffffffff)
					if l, has := uintMax[name]; has {
						lim = l
					}
					if n > lim {
						ok, why = false, path+name+": integer out of the leaf's range"
					}
				default:
					if o, w := md.ordinaryMsg(sub, path+name+"."); !o {
						ok, why = false, w
					}
				}
			}
			return ok
		}
		if fd.IsList() {
			l := v.List()
			seen := map[uint64]bool{}
			for i := 0; i < l.Len(); i++ {
				if !check(l.Get(i)) {
					return false
				}
				if fd.Kind() == protoreflect.MessageKind {
					if kf := l.Get(i).Message().Descriptor().Fields().ByName("index"); kf != nil {
						k := l.Get(i).Message().Get(kf).Uint()
						if seen[k] {
							ok, why = false, path+name+": duplicate list key"
							return false
						}
						seen[k] = true
					}
				}
			}
			// label stacks: values must be ordinary MPLS labels
			if name == "pushed_mpls_label_stack" || name == "popped_mpls_label_stack" || name == "mpls_label_stack" {
				for i := 0; i < l.Len(); i++ {
					sub := l.Get(i).Message()
					sub.Range(func(f2 protoreflect.FieldDescriptor, v2 protoreflect.Value) bool {
						if f2.Kind() == protoreflect.Uint64Kind && (v2.Uint() < 16 || v2.Uint() > maxLabel) {
							ok, why = false, path+name+": label outside 16..1048575"
						}
						if f2.Kind() == protoreflect.EnumKind {
							ok, why = false, path+name+": label given as enum"
						}
						return ok
					})
					nset := 0
					sub.Range(func(protoreflect.FieldDescriptor, protoreflect.Value) bool { nset++; return true })
					if nset == 0 {
						ok, why = false, path+name+": empty label union"
					}
				}
			}
			return ok
		}
		return check(v)
	})
	return ok, why
}

func (md *Model) ordinaryString(field, s string) bool {
	switch field {
	case "ip_address", "src_ip", "dst_ip":
		a, err := netip.ParseAddr(s)
		return err == nil && a.Zone() == "" && a.String() == s
	case "mac_address":
		return reMAC.MatchString(s)
	case "network_instance", "next_hop_group_network_instance":
		return md.NIs[s] || reName.MatchString(s)
	}
	return reName.MatchString(s)
}
