package harness

// Family "cut" (C10): a client is cut off - half-close, cancellation or
// transport failure - at a chosen point of a Modify script (after the k-th
// message sent / the j-th response read) or of a Get stream (after the k-th
// response), with in-flight messages. Afterwards the installed entries and the
// highest election id must be explainable by a prefix of what was sent, and a
// fresh session must be served within bounded simulated time.

import (
	"context"
	"fmt"
	"math/rand/v2"
	"os"
	"sort"
	"time"

	aftpb "github.com/openconfig/gribi/v1/proto/gribi_aft"
	spb "github.com/openconfig/gribi/v1/proto/service"
	"google.golang.org/grpc/codes"
	"google.golang.org/grpc/status"
	"google.golang.org/protobuf/proto"

	"verifsim/simnet"
	"verifsim/simrt"
)

func init() {
	families["cut"] = &family{gen: genCut, run: runCut}
	families["cutenum"] = &family{gen: genCutEnum, run: runCut}
}

var cutModes = []string{"halfclose", "cancel", "reset", "halfclose-cancel"}
var getModes = []string{"cancel", "reset", "stall-cancel"}

// fixedScript is the enumerated tier's Modify script: params, election, three
// batches including a held operation and a cascade.
func fixedScript(g *gen, elec [2]uint64) []Step {
	ni := g.cfg.Default
	nh := func(i uint64) *spb.AFTOperation {
		return &spb.AFTOperation{Id: g.id(), NetworkInstance: ni, Op: spb.AFTOperation_ADD, Entry: &spb.AFTOperation_NextHop{NextHop: g.nhPayload(i)}}
	}
	nhg := &spb.AFTOperation{Id: g.id(), NetworkInstance: ni, Op: spb.AFTOperation_ADD, Entry: &spb.AFTOperation_NextHopGroup{NextHopGroup: &aftpb.Afts_NextHopGroupKey{Id: 1, NextHopGroup: &aftpb.Afts_NextHopGroup{NextHop: []*aftpb.Afts_NextHopGroup_NextHopKey{{Index: 1, NextHop: &aftpb.Afts_NextHopGroup_NextHop{Weight: u(1)}}, {Index: 2, NextHop: &aftpb.Afts_NextHopGroup_NextHop{Weight: u(2)}}}}}}}
	v4 := &spb.AFTOperation{Id: g.id(), NetworkInstance: "VRF-A", Op: spb.AFTOperation_ADD, Entry: &spb.AFTOperation_Ipv4{Ipv4: &aftpb.Afts_Ipv4EntryKey{Prefix: "10.1.0.0/16", Ipv4Entry: &aftpb.Afts_Ipv4Entry{NextHopGroup: u(1), NextHopGroupNetworkInstance: sv(ni)}}}}
	del := &spb.AFTOperation{Id: g.id(), NetworkInstance: ni, Op: spb.AFTOperation_DELETE, Entry: &spb.AFTOperation_NextHop{NextHop: &aftpb.Afts_NextHopKey{Index: 3}}}
	st := []Step{{T: "c-params"}, {T: "c-elect", Elec: &elec}}
	b1 := g.batchStep(0, []*spb.AFTOperation{v4, nhg}) // both held
	b1.T = "c-ops"
	b2 := g.batchStep(0, []*spb.AFTOperation{nh(1), nh(3)})
	b2.T = "c-ops"
	b3 := g.batchStep(0, []*spb.AFTOperation{nh(2), del}) // cascade: nhg, then v4
	b3.T = "c-ops"
	return append(st, b1, b2, b3)
}

func prepSteps(g *gen) []Step {
	var out []Step
	var ops []*spb.AFTOperation
	for _, ni := range g.nis {
		for i := uint64(1); i <= 2; i++ {
			ops = append(ops, &spb.AFTOperation{Id: g.id(), NetworkInstance: ni, Op: spb.AFTOperation_ADD, Entry: &spb.AFTOperation_NextHop{NextHop: g.nhPayload(i)}})
		}
		ops = append(ops, &spb.AFTOperation{Id: g.id(), NetworkInstance: ni, Op: spb.AFTOperation_ADD, Entry: &spb.AFTOperation_NextHopGroup{NextHopGroup: &aftpb.Afts_NextHopGroupKey{Id: 2, NextHopGroup: &aftpb.Afts_NextHopGroup{NextHop: []*aftpb.Afts_NextHopGroup_NextHopKey{{Index: 1, NextHop: &aftpb.Afts_NextHopGroup_NextHop{Weight: u(1)}}}}}}})
		ops = append(ops, &spb.AFTOperation{Id: g.id(), NetworkInstance: ni, Op: spb.AFTOperation_ADD, Entry: &spb.AFTOperation_Ipv4{Ipv4: &aftpb.Afts_Ipv4EntryKey{Prefix: "192.0.2.0/24", Ipv4Entry: &aftpb.Afts_Ipv4Entry{NextHopGroup: u(2)}}}})
		// every table is populated, so that an abandoned Get can stop its producer inside each table's walk
		ops = append(ops, &spb.AFTOperation{Id: g.id(), NetworkInstance: ni, Op: spb.AFTOperation_ADD, Entry: &spb.AFTOperation_Ipv6{Ipv6: &aftpb.Afts_Ipv6EntryKey{Prefix: "2001:db8::/32", Ipv6Entry: &aftpb.Afts_Ipv6Entry{NextHopGroup: u(2)}}}})
		ops = append(ops, &spb.AFTOperation{Id: g.id(), NetworkInstance: ni, Op: spb.AFTOperation_ADD, Entry: &spb.AFTOperation_Mpls{Mpls: &aftpb.Afts_LabelEntryKey{Label: &aftpb.Afts_LabelEntryKey_LabelUint64{LabelUint64: 100}, LabelEntry: &aftpb.Afts_LabelEntry{NextHopGroup: u(2)}}}})
	}
	out = append(out, g.batchStep(0, ops))
	return out
}

// Enumerated cut space (quick tier). Index -> (target, point, mode, window).
//
//	Modify: 6 after-send points (0..5 messages sent) + 7 after-recv points (1..7 responses read) = 13, x 4 modes x 2 windows = 104
//	Get:    19 points (0..18 responses read: the prepared RIB holds 18 entries, 6 per instance, one table each) x 3 modes x 2 windows
//	        x {nobody else, a primary whose writes to every instance are waiting for the instance locks when the Get is abandoned} = 228
const cutSpaceModify, cutSpaceGet = 104, 228
const CutSpace = cutSpaceModify + cutSpaceGet

func genCutEnum(seed uint64, prop string) *Scenario {
	idx := int(seed % CutSpace)
	cfg := ScenCfg{Default: "DEFAULT", VRFs: []string{"VRF-A", "VRF-B"}, FwdRefs: true}
	r := rand.New(rand.NewPCG(seed/CutSpace, 0x637574))
	cfg.Policy = []string{"coarse", "fine", "coarse", "pct"}[r.IntN(4)]
	cfg.PCTDepth = 2
	cfg.Bystander = (seed/CutSpace)%2 == 1 // every other visit of a cut point has a standby session connected
	sc := &Scenario{Family: "cutenum", Seed: seed, Cfg: cfg}
	g := newGen(seed/CutSpace, 0x637575, &sc.Cfg)
	sc.Steps = append(sc.Steps, prepSteps(g)...)
	if idx < cutSpaceModify {
		w, rest := idx%2, idx/2
		mode, point := rest%4, rest/4
		sc.Cfg.Window = []int{1, 0}[w]
		sc.Steps = append(sc.Steps, fixedScript(g, [2]uint64{0, 5})...)
		c := Step{T: "c-cut", Note: cutModes[mode]}
		if point < 6 {
			c.A, c.B = 0, point
		} else {
			c.A, c.B = 1, point-5
		}
		sc.Steps = append(sc.Steps, c)
	} else {
		idx -= cutSpaceModify
		w, rest := idx%2, idx/2
		mode, rest := rest%3, rest/3
		writer, point := rest%2, rest/2
		sc.Cfg.Window = []int{1, 0}[w]
		sc.Steps = append(sc.Steps, Step{T: "g-cut", Get: &GetSpec{All: true, AFT: int32(spb.AFTType_ALL)}, A: writer, B: point, Note: getModes[mode]})
	}
	return sc
}

// genCut: random scripts and sequences of several faults (thorough tier).
func genCut(seed uint64, prop string) *Scenario {
	r := rand.New(rand.NewPCG(seed, 0x637576))
	cfg := ScenCfg{Default: "DEFAULT", VRFs: []string{"VRF-A", "VRF-B"}, FwdRefs: r.IntN(4) != 0}
	cfg.Policy = []string{"coarse", "fine", "pct"}[r.IntN(3)]
	cfg.PCTDepth = 1 + r.IntN(3)
	cfg.Window = []int{1, 0, 2, 8}[r.IntN(4)]
	cfg.FIBAck = r.IntN(2) == 0
	cfg.Bystander = r.IntN(2) == 0 // a standby that announced a low id stays connected throughout
	sc := &Scenario{Family: "cut", Seed: seed, Cfg: cfg}
	g := newGen(seed, 0x637577, &sc.Cfg)
	if r.IntN(3) != 0 {
		sc.Steps = append(sc.Steps, prepSteps(g)...)
	}
	nf := 1 + r.IntN(4)
	if deepSeed(seed) && r.IntN(3) == 0 {
		nf = 4 + r.IntN(6)
	}
	elec := [2]uint64{0, 10}
	for f := 0; f < nf; f++ {
		if r.IntN(3) == 0 {
			gs := &GetSpec{AFT: int32(aftTypeNums[r.IntN(len(aftTypeNums))])}
			if r.IntN(2) == 0 {
				gs.All = true
			} else {
				gs.NI = g.ni()
			}
			sc.Steps = append(sc.Steps, Step{T: "g-cut", Get: gs, A: r.IntN(2), B: r.IntN(8), Note: getModes[r.IntN(3)]})
			continue
		}
		elec[1] += uint64(1 + r.IntN(3))
		e := elec
		nmsg := 0
		sc.Steps = append(sc.Steps, Step{T: "c-params"})
		nmsg++
		sc.Steps = append(sc.Steps, Step{T: "c-elect", Elec: &e})
		nmsg++
		nb := 1 + r.IntN(4)
		nops := 0
		for b := 0; b < nb; b++ {
			var ops []*spb.AFTOperation
			if g.chance(1, 5) {
				// one long request of operations that each change something: a session cut off while the
				// server is part-way through it must stop there (at most the operation in progress completes)
				ni, n := g.ni(), 5+g.pick(8)
				for j := 0; j < n; j++ {
					ops = append(ops, &spb.AFTOperation{Id: g.id(), NetworkInstance: ni, Op: spb.AFTOperation_ADD, Entry: &spb.AFTOperation_NextHop{NextHop: &aftpb.Afts_NextHopKey{
						Index: uint64(300 + j), NextHop: &aftpb.Afts_NextHop{IpAddress: sv(fmt.Sprintf("198.18.%d.%d", g.mark()&255, j))}}}})
				}
			} else if g.chance(1, 2) {
				ops = g.chain()
			} else {
				for j := 0; j <= g.pick(4); j++ {
					ops = append(ops, g.randomOp())
				}
			}
			if len(ops) == 0 {
				continue
			}
			st := g.batchStep(0, ops)
			st.T = "c-ops"
			sc.Steps = append(sc.Steps, st)
			nmsg++
			nops += len(ops)
			if r.IntN(5) == 0 {
				elec[1]++
				e2 := elec
				sc.Steps = append(sc.Steps, Step{T: "c-elect", Elec: &e2})
				nmsg++
			}
		}
		c := Step{T: "c-cut", Note: cutModes[r.IntN(4)]}
		if r.IntN(2) == 0 {
			c.A, c.B = 0, r.IntN(nmsg+1)
		} else {
			c.A, c.B = 1, 1+r.IntN(nmsg+nops)
		}
		sc.Steps = append(sc.Steps, c)
	}
	return sc
}

// ---------------------------------------------------------------------------

// item is one unit of the flattened send order: an election announcement or one operation.
type cutItem struct {
	elec *[2]uint64
	rec  *opRec
	req  int // ordinal of the message the item travelled in
}

// seqModel simulates the server's sequential processing (including the
// cascade of held operations) on a clone of the model.
type seqModel struct {
	m    *Model
	held map[uint64]*opRec
	max  [2]uint64
	// last is the id the (single) sending session announced last; nil before its first announcement.
	last *[2]uint64
	// alts: operations applied here without an acknowledgement, per key. When several
	// held operations for the same key resolve in one cascade their order is the
	// server's (map iteration) choice, so the surviving payload may be any of them.
	alts map[Key][]*opRec
	// impl: the implementation's installed entries (to follow operations of unspecified validity)
	impl Snapshot
	// implHeld: ids the implementation holds (an operation of unspecified validity that it accepted
	// is held like any other while its references do not resolve)
	implHeld map[uint64]bool
	// maybeHeld: held REPLACEs whose target has gone and whose references still do not resolve, dropped here on
	// a retry because the tree looks at the target first; a server that looks at the references first keeps them
	maybeHeld map[uint64]*opRec
	// gone: the session that sent a held operation has ended or lost the primary role (a server may discard it)
	gone func(*opRec) bool
}

func (q *seqModel) note(rec *opRec, en *Entry) {
	if q.alts == nil {
		q.alts = map[Key][]*opRec{}
	}
	q.alts[en.Key] = append(q.alts[en.Key], rec)
}

// matches compares the model with the implementation snapshot, resolving
// payload differences that are explained by cascade-order ambiguity.
func (q *seqModel) matches(impl Snapshot) (bool, []Diff) {
	ds := diffSnap(modelSnapshot(q.m, "", -1), impl)
	var rest []Diff
	for _, d := range ds {
		fixed := false
		if en := q.m.Tab[d.Key]; d.What == "payload" && en != nil && en.Loose {
			continue // content of an operation of unspecified validity: not predicted
		}
		if d.What == "payload" {
			for _, rec := range q.alts[d.Key] {
				_, en, _ := q.m.Analyse(rec.op)
				if en != nil && rec.op.GetOp() != spb.AFTOperation_DELETE && proto.Equal(normalize(en.Msg), normalize(impl[d.Key])) {
					q.m.Apply(rec.op, en)
					fixed = true
					break
				}
			}
		}
		if !fixed {
			rest = append(rest, d)
		}
	}
	return len(rest) == 0, rest
}

func (q *seqModel) apply(it cutItem) {
	if it.elec != nil {
		if *it.elec == [2]uint64{0, 0} {
			return
		}
		id := *it.elec
		q.last = &id
		if !less128(id, q.max) {
			q.max = id
		}
		return
	}
	// admission: only the primary's correctly stamped operations are processed;
	// anything else is rejected (FAILED or RPC error) without effect.
	st := it.rec.op.GetElectionId()
	if q.last == nil || st == nil || [2]uint64{st.High, st.Low} != *q.last || *q.last != q.max {
		return
	}
	if (it.rec.state == opProgrammed || it.rec.state == opFailed) && !it.rec.unacked {
		return // acknowledged: already part of the model
	}
	v, en, why := q.m.Expect(it.rec.op)
	switch v {
	case VProgram:
		q.m.Apply(it.rec.op, en)
		q.note(it.rec, en)
		delete(q.held, it.rec.op.GetId())
		if it.rec.op.GetOp() != spb.AFTOperation_DELETE {
			q.cascade()
		}
	case VHold:
		q.held[it.rec.op.GetId()] = it.rec
	case VFail:
		// An unanswered REPLACE whose target is gone NOW may have been received while the target still existed
		// (a later, acknowledged DELETE of the same request is already part of the model): it was held for its
		// unresolved reference then and stays held until something retries it. Follow the implementation.
		if why == "replace of missing entry" && q.m.FwdRefs && en != nil && !q.m.Resolvable(en) && q.implHeld[it.rec.op.GetId()] {
			q.held[it.rec.op.GetId()] = it.rec
		}
	case VEither:
		// unspecified validity: it may or may not have been accepted - follow the implementation
		if en != nil && q.impl != nil {
			_, has := q.impl[en.Key]
			if it.rec.op.GetOp() == spb.AFTOperation_DELETE {
				if !has {
					q.m.Apply(it.rec.op, en)
				}
			} else if q.implHeld[it.rec.op.GetId()] && q.m.FwdRefs && !q.m.Resolvable(en) {
				q.held[it.rec.op.GetId()] = it.rec // (an earlier version of the entry may well be installed)
			} else if has {
				en.Loose = true
				q.m.Apply(it.rec.op, en)
				q.cascade()
			}
		}
	}
}

func (q *seqModel) cascade() {
	for changed := true; changed; {
		changed = false
		var ids []uint64
		for id := range q.held {
			ids = append(ids, id)
		}
		sort.Slice(ids, func(i, j int) bool { return ids[i] < ids[j] })
		for _, id := range ids {
			rec := q.held[id]
			v, en, why := q.m.Expect(rec.op)
			switch v {
			case VProgram:
				q.m.Apply(rec.op, en)
				q.note(rec, en)
				delete(q.held, id)
				changed = true
			case VFail:
				// fails on retry: a REPLACE whose target has gone is refused before its references are even looked
				// at (so also while they still do not resolve)
				if en != nil && (q.m.Resolvable(en) || why == "replace of missing entry") {
					if !q.m.Resolvable(en) {
						if q.maybeHeld == nil {
							q.maybeHeld = map[uint64]*opRec{}
						}
						q.maybeHeld[id] = rec
					}
					delete(q.held, id)
					changed = true
				}
			case VEither:
				// a held operation of unspecified validity becomes resolvable: installed or failed, as the implementation chose
				if en != nil && q.m.Resolvable(en) {
					if _, has := q.impl[en.Key]; has && q.impl != nil {
						en.Loose = true
						q.m.Apply(rec.op, en)
					}
					delete(q.held, id)
					changed = true
				}
			}
		}
	}
}

func (e *env) heldRecs() map[uint64]*opRec {
	out := map[uint64]*opRec{}
	for id, r := range e.allOps {
		if r.state == opHeld {
			out[id] = r
		}
	}
	return out
}

// matchPrefix finds a prefix of items (beyond those already acknowledged) that
// explains the implementation's state; it commits the model to it.
func (e *env) matchPrefix(items []cutItem, minK int, what string, last *[2]uint64, prop string) bool {
	impl := e.implSnapshot()
	implHeld := map[uint64]bool{}
	for _, id := range e.implHeldIDs() {
		implHeld[id] = true
	}
	id, _ := e.srv.VerifElection()
	var implMax [2]uint64
	if id != nil {
		implMax = [2]uint64{id.High, id.Low}
	}
	q := &seqModel{m: e.model.Clone(), held: e.heldRecs(), max: e.maxElec, last: last, impl: impl, implHeld: implHeld, gone: e.sessionGone}
	bestK, bestDesc, bestN := -1, "", 1<<30
	for k := 0; ; k++ {
		okSnap := false
		if k >= minK {
			var ds []Diff
			okSnap, ds = q.matches(impl)
			n := len(ds)
			if q.max != implMax {
				n++
			}
			if !q.sameHeld(implHeld) {
				n++
			}
			if os.Getenv("VERIF_DEBUG_PREFIX") != "" {
				if f, err := os.OpenFile(os.Getenv("VERIF_DEBUG_PREFIX"), os.O_APPEND|os.O_CREATE|os.O_WRONLY, 0o644); err == nil {
					fmt.Fprintf(f, "PREFIX %s k=%d diffs=%v max=%v/%v held=%v/%v\n", what, k, ds, q.max, implMax, keysOf(q.held), implHeld)
					f.Close()
				}
			}
			if n < bestN {
				bestK, bestN = k, n
				bestDesc = fmt.Sprintf("closest prefix: %d items: entries %v; election model %v server %v; held model %v server %v", k, ds, q.max, implMax, keysOf(q.held), implHeld)
			}
		}
		if k >= minK && okSnap && q.max == implMax && q.sameHeld(implHeld) {
			for id, rec := range q.maybeHeld {
				if implHeld[id] {
					q.held[id] = rec // the server kept it: it is still held
				}
			}
			e.model = q.m
			e.maxElec = q.max
			for _, it := range items[:k] {
				if it.rec != nil && it.rec.state == opSent {
					it.rec.unacked = true
					if _, h := q.held[it.rec.op.GetId()]; h {
						it.rec.state, it.rec.wasHeld = opHeld, true
					} else {
						it.rec.state = opProgrammed // resolved one way or the other; no result is owed
					}
				}
			}
			for _, r := range e.allOps {
				if r.state == opHeld {
					if _, h := q.held[r.op.GetId()]; !h {
						r.state, r.unacked = opProgrammed, true
					} else if !implHeld[r.op.GetId()] {
						// sameHeld accepted its absence: a held REPLACE whose target is gone was failed by a retry whose
						// answer travelled on a stream that was cut. It is finished - it must not be expected to be held
						// (or to resolve) once its target exists again.
						r.state, r.unacked = opFailed, true
						e.probe("cut: held REPLACE of a deleted target failed on a retry whose answer was lost")
					}
				}
			}
			for _, it := range items[k:] {
				if it.rec != nil && it.rec.state == opSent {
					it.rec.state, it.rec.unacked = opFailed, true
				}
			}
			if k > minK {
				e.probe("cut: unacknowledged prefix of in-flight messages was applied")
			}
			if k < len(items) {
				e.probe("cut: a suffix of the sent messages was never processed")
			}
			return true
		}
		if k == len(items) {
			break
		}
		q.apply(items[k])
	}
	q0 := &seqModel{m: e.model.Clone(), held: e.heldRecs(), max: e.maxElec, last: last}
	for _, it := range items[:minK] {
		q0.apply(it)
	}
	e.checkpoint(func() {
		if q0.max != implMax && !less128(implMax, q0.max) {
			found := false
			for _, it := range items {
				if it.elec != nil && *it.elec == implMax {
					found = true
				}
			}
			if !found {
				e.report(prop, "election-changed", "highest election id is not one that was announced", fmt.Sprintf("%s: server has %v", what, implMax), false)
			}
		}
		_ = bestK
		e.report(prop, "state-after-disconnect", "installed entries / election id match no prefix of what the client sent", fmt.Sprintf("%s: %d items sent, at least %d acknowledged; %s", what, len(items), minK, bestDesc), false)
	})
	return false
}

// prefixesMatching lists the prefix lengths k >= minK of items for which the acknowledged operations plus the
// first k items explain the installed entries in snap (ascending). Nothing is committed to the model.
func (e *env) prefixesMatching(items []cutItem, minK int, snap Snapshot, implHeld map[uint64]bool) []int {
	if snap == nil {
		return nil
	}
	if implHeld == nil {
		implHeld = map[uint64]bool{}
		for _, id := range e.implHeldIDs() {
			implHeld[id] = true
		}
	}
	q := &seqModel{m: e.model.Clone(), held: e.heldRecs(), max: e.maxElec, impl: snap, implHeld: implHeld}
	var out []int
	for k := 0; ; k++ {
		if k >= minK {
			if ok, _ := q.matches(snap); ok {
				out = append(out, k)
			}
		}
		if k == len(items) {
			return out
		}
		q.apply(items[k])
	}
}

func keysOf(m map[uint64]*opRec) []uint64 {
	var out []uint64
	for k := range m {
		out = append(out, k)
	}
	sort.Slice(out, func(i, j int) bool { return out[i] < out[j] })
	return out
}

// sameHeld compares the model's held set with the server's. A held REPLACE whose
// target has been deleted may or may not still be held: the server fails it
// whenever some install retries it, which the properties leave open.
func (q *seqModel) sameHeld(b map[uint64]bool) bool {
	for k, rec := range q.held {
		if b[k] {
			continue
		}
		if v, _, why := q.m.Expect(rec.op); v == VFail && why == "replace of missing entry" {
			continue
		}
		if q.gone != nil && q.gone(rec) {
			continue
		}
		return false
	}
	for k := range b {
		if _, ok := q.held[k]; !ok && q.maybeHeld[k] == nil {
			return false
		}
	}
	return true
}

// ---------------------------------------------------------------------------

func runCut(e *env) {
	e.setup()
	if e.sc.Family == "cutenum" {
		e.probe(fmt.Sprintf("cutpoint %03d", e.sc.Seed%CutSpace))
	}
	elec := [2]uint64{0, 1}
	var prep *session
	var script []*Step
	var standby *session
	if e.sc.Cfg.Bystander {
		// A standby session: negotiated, announced a low id once, idle ever after. Whoever else
		// goes away, it stays a non-primary, stays connected, and the highest learnt id stays what it was.
		standby = e.openSession([2]uint64{0, 1}, e.sc.Cfg.FIBAck)
		e.standbySessions = 1
	}
	defer func() {
		if standby == nil || len(e.viol) > 0 {
			return
		}
		if standby.mc.Stream().Dead() || standby.mc.Stream().QueuedToClient() > 0 {
			e.report("C10", "bystander-disturbed", "a standby session was terminated or received messages when another client went away", fmt.Sprintf("dead=%v result=%v queued=%d", standby.mc.Stream().Dead(), standby.mc.Stream().Result(), standby.mc.Stream().QueuedToClient()), false)
		}
	}()
	closePrep := func() {
		if prep != nil && !prep.dead && !prep.closed {
			// the preparing session leaves cleanly first
			prep.mc.CloseSend()
			prep.closed = true
			simrt.AwaitQuiescence("prep-close")
			e.drainAndProcess(prep)
			prep.dead = true
		}
	}
	for i := range e.sc.Steps {
		st := &e.sc.Steps[i]
		e.step = i
		switch st.T {
		case "modify":
			if prep == nil || prep.dead {
				prep = e.openSession(elec, e.sc.Cfg.FIBAck)
			}
			e.modify(prep, st)
		case "c-params", "c-elect", "c-ops":
			script = append(script, st)
		case "c-cut":
			closePrep()
			e.cutModify(script, st)
			script = nil
			e.liveness("after " + st.Note + " of a Modify session")
		case "g-cut":
			closePrep()
			e.cutGet(st)
			e.liveness("after abandoning a Get (" + st.Note + ")")
		}
	}
}

// cutModify plays script on a new session, pipelined, and cuts it off.
func (e *env) cutModify(script []*Step, cut *Step) {
	s := &session{idx: len(e.sess), sent: map[uint64]*opRec{}, fibAck: e.sc.Cfg.FIBAck}
	s.mc = e.net.OpenModify()
	e.sess = append(e.sess, s)
	var items []cutItem
	nsent, nread := 0, 0
	var responses []*spb.ModifyResponse
	readAvail := func() {
		for {
			r, err, ok := s.mc.TryRecv()
			if !ok || err != nil {
				return
			}
			responses = append(responses, r)
			nread++
		}
	}
	afterSend := cut.A == 0
	if len(script) == 0 || script[0].T != "c-params" {
		script = nil // shrinking removed the negotiation: nothing meaningful to play
	}
	for _, st := range script {
		if afterSend && nsent >= cut.B {
			break
		}
		switch st.T {
		case "c-params":
			c := 6
			if e.sc.Cfg.FIBAck {
				c = 7
			}
			s.mc.Send(&spb.ModifyRequest{Params: comboParams(c)})
		case "c-elect":
			id := *st.Elec
			s.elec = id
			s.mc.Send(&spb.ModifyRequest{ElectionId: uint128(id)})
			items = append(items, cutItem{elec: &id, req: nsent})
		case "c-ops":
			ops := st.ops()
			if len(ops) == 0 {
				continue
			}
			for _, op := range ops {
				op.ElectionId = uint128(s.elec)
				e.opSeq++
				rec := &opRec{op: op, sess: s.idx, seq: e.opSeq}
				s.sent[op.GetId()] = rec
				e.allOps[op.GetId()] = rec
				items = append(items, cutItem{rec: rec, req: nsent})
			}
			s.mc.Send(&spb.ModifyRequest{Operation: ops})
		}
		nsent++
	}
	if !afterSend {
		// read cut.B responses (bounded), then cut
		for nread < cut.B {
			r, err := s.mc.RecvTimeout(30 * time.Second)
			if err != nil {
				break
			}
			responses = append(responses, r)
			nread++
		}
	} else if e.sim.Choose("flt", 2) == 1 {
		readAvail()
	}
	// the cut may land a few scheduling rounds later: the server has read some of what was sent (perhaps ahead
	// of what it has processed) and is part-way through it
	if d := e.sim.Choose("flt", 4); d > 0 {
		simrt.Yield("cut-delay", d)
	}
	e.sim.Log("cut", fmt.Sprintf("%s after %d sent / %d read", cut.Note, nsent, nread))
	if s.mc.Stream().QueuedToServer() > 0 {
		e.probe("cut with client messages still in flight")
	}
	// A session that is cut off must not go on working: once the server has ended the RPC, at most the
	// request that was being worked on at that instant may still be finished (a server may treat a request as
	// one unit; the tree happens to stop after the operation in progress) - it must not go on to further
	// requests. The installed entries are recorded at the instant the handler returns and compared, further
	// down, with those at rest.
	var atReturn Snapshot
	var heldAtReturn map[uint64]bool
	if cut.Note != "halfclose" {
		// (observed from the handler's own task: under the coarse policy the harness would only run again once
		// everything else has come to rest)
		s.mc.Stream().OnFinish = func() {
			if rc, err := e.srv.VerifRIB().RIBContents(); err == nil {
				atReturn, _ = snapFromRIBContents(rc)
				heldAtReturn = map[uint64]bool{}
				for _, id := range e.implHeldIDs() {
					heldAtReturn[id] = true
				}
			}
		}
	}
	switch cut.Note {
	case "halfclose":
		e.sim.Fault("halfclose")
		s.mc.CloseSend()
	case "halfclose-cancel":
		// the client half-closes, does not drain what the server still owes it, and then goes away
		e.sim.Fault("halfclose")
		s.mc.CloseSend()
		simrt.AwaitQuiescence("halfclose-settle")
		if s.mc.Stream().QueuedToClient() > 0 && !s.mc.Stream().Finished() {
			e.probe("cut: cancelled after half-close with the server blocked on flow control")
		}
		s.mc.Stream().Cancel()
	case "cancel":
		s.mc.Stream().Cancel()
	default:
		s.mc.Stream().Reset()
	}
	simrt.AwaitQuiescence("after-cut")
	if cut.Note == "halfclose" {
		// a half-closed stream still delivers everything: read it all, the RPC must end OK
		rs, term := e.drain(s)
		responses = append(responses, rs...)
		if !s.dead {
			e.report("C10", "halfclose-not-finished", "RPC still open after the client half-closed", e.sim.Describe(), false)
		} else if term != nil && term.Error() != "EOF" {
			e.report("C10", "clean-close-error", "half-closed session ended with an error", term.Error(), false)
		}
	}
	s.dead = true
	// what the client saw acknowledged
	e.processResultsLenient(s, responses)
	minK := 0
	if cut.Note == "halfclose" && (s.termErr == nil || s.termErr.Error() == "EOF") {
		minK = len(items) // a clean half-close loses nothing
	}
	for i, it := range items {
		if it.rec != nil && (it.rec.state == opProgrammed || it.rec.state == opFailed) {
			minK = i + 1
		}
	}
	// election announcements answered
	for _, r := range responses {
		if r.GetElectionId() != nil {
			for i, it := range items {
				if it.elec != nil && i+1 > minK {
					// the k-th election response acknowledges the k-th announcement; find by order
					_ = i
				}
			}
		}
	}
	if atReturn != nil {
		what := fmt.Sprintf("%s after %d messages sent, %d responses read", cut.Note, nsent, nread)
		atRet := e.prefixesMatching(items, minK, atReturn, heldAtReturn)
		rest := e.prefixesMatching(items, minK, e.implSnapshot(), nil)
		if len(atRet) > 0 && len(rest) > 0 {
			late, from := 0, atRet[len(atRet)-1]
			if from > rest[0] {
				from = rest[0]
			}
			reqs := map[int]bool{}
			for _, it := range items[from:rest[0]] {
				if it.rec != nil {
					late++
					reqs[it.req] = true
				}
			}
			switch {
			case len(reqs) > 1:
				e.report("C10", "departed-session-kept-working", "further requests of a session were worked on after its RPC had ended",
					fmt.Sprintf("%s: the installed entries when the handler returned are explained by at most %d of the %d items sent, those at rest need at least %d (%d operations of %d different requests in between; the request in progress may have been finished)", what, atRet[len(atRet)-1], len(items), rest[0], late, len(reqs)), false)
			case late > 1:
				e.probe("cut: the request in progress when the RPC ended was finished afterwards (several operations)")
			case late == 1:
				e.probe("cut: the operation in progress when the RPC ended completed afterwards")
			default:
				e.probe("cut: nothing changed after the RPC ended")
			}
		} else if len(atRet) == 0 {
			e.probe("cut: installed entries at the instant the RPC ended match no prefix (operation half applied)")
		}
	}
	e.checkpoint(func() {
		if e.matchPrefix(items, minK, fmt.Sprintf("%s after %d messages sent, %d responses read", cut.Note, nsent, nread), nil, "C10") {
			if cut.Note == "halfclose" {
				// nothing may be lost on a clean half-close: everything sent was processed
				for _, it := range items {
					if it.rec != nil && it.rec.unacked && it.rec.state == opFailed {
						v, _, _ := e.model.Expect(it.rec.op)
						_ = v
					}
				}
			}
		}
		if n := len(e.srv.VerifSessions()); n != e.standbySessions {
			e.report("C10", "session-footprint", "session table not empty after the only client went away", fmt.Sprintf("%d sessions tracked, %d standby sessions connected", n, e.standbySessions), false)
		}
		e.checkRefCounts("C10")
	})
}

// processResultsLenient replays results like processResults, but a cut client
// may have read only part of them (no completeness expectations).
func (e *env) processResultsLenient(s *session, rs []*spb.ModifyResponse) {
	e.processResults(s, rs)
}

// cutGet abandons a Get part-way.
func (e *env) cutGet(st *Step) {
	req := &spb.GetRequest{Aft: spb.AFTType(st.Get.AFT)}
	if st.Get.All {
		req.NetworkInstance = &spb.GetRequest_All{All: &spb.Empty{}}
	} else {
		req.NetworkInstance = &spb.GetRequest_Name{Name: st.Get.NI}
	}
	// st.A == 1: a primary is connected whose writes to every instance arrive while the Get is being read,
	// so that they wait for the instance locks its producer holds at the moment the Get is abandoned
	var wr *session
	if st.A == 1 {
		wr = e.openSession(add128(e.maxElec, 1), e.sc.Cfg.FIBAck)
	}
	gc := e.net.OpenGet(req)
	n := 0
	for n < st.B {
		_, err := gc.RecvTimeout(30 * time.Second)
		if err != nil {
			break
		}
		n++
	}
	var wops []*spb.AFTOperation
	if wr != nil {
		for i, ni := range e.model.SortedNIs() {
			op := &spb.AFTOperation{Id: 700000 + uint64(1000*e.step+i), NetworkInstance: ni, Op: spb.AFTOperation_ADD, ElectionId: uint128(wr.elec),
				Entry: &spb.AFTOperation_NextHop{NextHop: &aftpb.Afts_NextHopKey{Index: 3, NextHop: &aftpb.Afts_NextHop{IpAddress: sv(fmt.Sprintf("198.51.100.%d", 1+e.step%250))}}}}
			e.opSeq++
			rec := &opRec{op: op, sess: wr.idx, seq: e.opSeq}
			wr.sent[op.GetId()] = rec
			e.allOps[op.GetId()] = rec
			wops = append(wops, op)
		}
		wr.mc.Send(&spb.ModifyRequest{Operation: wops})
		simrt.AwaitQuiescence("writer-queued")
		if !gc.Stream().Dead() && gc.Stream().QueuedToClient() > 0 {
			e.probe("Get abandoned while a writer was waiting behind its producer")
		}
	}
	if !gc.Stream().Dead() {
		e.probe("Get abandoned before its end")
	}
	e.sim.Log("cut", fmt.Sprintf("get %s after %d responses", st.Note, n))
	switch st.Note {
	case "cancel":
		gc.Stream().Cancel()
	case "reset":
		gc.Stream().Reset()
	default:
		// stop reading for a while (the producer runs into flow control), then cancel
		e.sim.Fault("stall")
		simrt.Sleep("get-stall", 5*time.Second)
		gc.Stream().Cancel()
	}
	simrt.AwaitQuiescence("after-get-cut")
	if wr != nil {
		// the writes that were waiting behind the abandoned Get must be answered now
		var rs []*spb.ModifyResponse
		answered := map[uint64]bool{}
		for len(answered) < len(wops) {
			r, err := wr.mc.RecvTimeout(60 * time.Second)
			if err != nil {
				e.report("C10", "not-serviceable", "writes that were waiting while a Get was abandoned ("+st.Note+") were never answered", fmt.Sprintf("%v; %s", err, e.sim.Describe()), false)
				break
			}
			rs = append(rs, r)
			for _, res := range r.GetResult() {
				// (a result for somebody else's held operation may arrive here too: KF-C06-1, judged elsewhere)
				if wr.sent[res.GetId()] != nil && (res.GetStatus() == spb.AFTResult_RIB_PROGRAMMED || res.GetStatus() == spb.AFTResult_FAILED) {
					answered[res.GetId()] = true
				}
			}
		}
		// (whatever these installs caused besides - results for operations held earlier - may travel in messages
		// of their own: everything is read before the writer half-closes, a server may end the RPC as soon as it
		// sees the half-close)
		simrt.AwaitQuiescence("writer-results")
		r1, _ := e.drain(wr)
		rs = append(rs, r1...)
		wr.mc.CloseSend()
		wr.closed = true
		simrt.AwaitQuiescence("writer-close")
		r2, _ := e.drain(wr)
		e.processResults(wr, append(rs, r2...))
		wr.dead = true
	}
	e.checkpoint(func() {
		e.compareStateAs("C10", "after abandoned Get")
		e.checkRefCounts("C10")
	})
}

// liveness is the bounded-time probe after the last fault: negotiate, win the
// election, one ADD acknowledged, a Get and a Flush answered.
func (e *env) liveness(when string) {
	deadline := 60 * time.Second
	fail := func(what string) {
		e.report("C10", "not-serviceable", what+" "+when, e.sim.Describe(), false)
	}
	id := add128(e.maxElec, 1)
	s := &session{idx: len(e.sess), sent: map[uint64]*opRec{}, fibAck: e.sc.Cfg.FIBAck}
	s.mc = e.net.OpenModify()
	e.sess = append(e.sess, s)
	c := 6
	if s.fibAck {
		c = 7
	}
	s.mc.Send(&spb.ModifyRequest{Params: comboParams(c)})
	r, err := s.mc.RecvTimeout(deadline)
	if err != nil || r.GetSessionParamsResult().GetStatus() != spb.SessionParametersResult_OK {
		fail(fmt.Sprintf("a new session could not negotiate (%v %v)", r, err))
	}
	s.mc.Send(&spb.ModifyRequest{ElectionId: uint128(id)})
	r, err = s.mc.RecvTimeout(deadline)
	if err != nil || r.GetElectionId() == nil {
		fail(fmt.Sprintf("a new session's election announcement was not answered (%v %v)", r, err))
	}
	if got := r.GetElectionId(); got.High != id[0] || got.Low != id[1] {
		e.report("C10", "election-changed", "a session announcing max+1 was told a different id", fmt.Sprintf("announced %v got %v %s", id, got, when), false)
	}
	e.maxElec = id
	s.elec = id
	// one ADD to every network instance (every instance lock must be available)
	var ops []*spb.AFTOperation
	for i, ni := range e.model.SortedNIs() {
		ops = append(ops, &spb.AFTOperation{Id: 800000 + uint64(1000*e.step+i), NetworkInstance: ni, Op: spb.AFTOperation_ADD, ElectionId: uint128(id),
			Entry: &spb.AFTOperation_NextHop{NextHop: &aftpb.Afts_NextHopKey{Index: 4, NextHop: &aftpb.Afts_NextHop{IpAddress: sv(fmt.Sprintf("198.51.100.%d", e.step%250))}}}})
	}
	for _, op := range ops {
		e.opSeq++
		rec := &opRec{op: op, sess: s.idx, seq: e.opSeq}
		s.sent[op.GetId()] = rec
		e.allOps[op.GetId()] = rec
	}
	s.mc.Send(&spb.ModifyRequest{Operation: ops})
	// (however the server groups results into responses: read until every operation has its verdict)
	var rs []*spb.ModifyResponse
	answered := map[uint64]bool{}
	for len(answered) < len(ops) {
		r, err := s.mc.RecvTimeout(deadline)
		if err != nil {
			fail(fmt.Sprintf("a new primary's ADD was not answered (%v)", err))
		}
		rs = append(rs, r)
		for _, res := range r.GetResult() {
			if st := res.GetStatus(); s.sent[res.GetId()] != nil && res.GetId() >= 800000 && (st == spb.AFTResult_RIB_PROGRAMMED || st == spb.AFTResult_FAILED) {
				answered[res.GetId()] = true
			}
		}
	}
	// (results that these installs caused for operations held earlier may follow in messages of their own)
	simrt.AwaitQuiescence("liveness-results")
	more, _ := e.drain(s)
	rs = append(rs, more...)
	e.processResults(s, rs)
	for _, op := range ops {
		if e.allOps[op.GetId()].state != opProgrammed {
			fail("a new primary's ADD was not programmed")
		}
	}
	// Get
	gc := e.net.OpenGet(&spb.GetRequest{NetworkInstance: &spb.GetRequest_All{All: &spb.Empty{}}, Aft: spb.AFTType_ALL})
	var grs []*spb.GetResponse
	for {
		gr, err := gc.RecvTimeout(deadline)
		if err == simnet.ErrTimeout {
			fail("a Get did not complete")
		}
		if err != nil {
			if err.Error() != "EOF" && status.Code(err) != codes.OK {
				fail("a Get failed: " + err.Error())
			}
			break
		}
		grs = append(grs, gr)
	}
	snap, _, _ := snapFromGet(grs)
	e.reportDiffs("C10", "Get "+when, diffSnap(modelSnapshot(e.model, "", -1), snap))
	// Flush of one instance (bounded by the controller's stuck detection and the timeout below)
	ctx, cancel := context.WithTimeout(context.Background(), deadline)
	defer cancel()
	ni := e.model.SortedNIs()[e.step%len(e.model.NIs)]
	_, ferr := e.net.Flush(ctx, &spb.FlushRequest{NetworkInstance: &spb.FlushRequest_Name{Name: ni}, Election: &spb.FlushRequest_Id{Id: uint128(id)}})
	if ferr != nil {
		fail("a Flush by the new primary failed: " + ferr.Error())
	}
	e.model.Flush([]string{ni})
	e.perNIFlush = true
	// leave cleanly
	s.mc.CloseSend()
	s.closed = true
	simrt.AwaitQuiescence("liveness-end")
	e.drainAndProcess(s)
	e.checkpoint(func() {
		e.compareStateAs("C10", "after the liveness probe "+when)
		e.checkRefCounts("C10")
		if n := len(e.srv.VerifSessions()); n != e.standbySessions {
			e.report("C10", "session-footprint", "session table not empty after every client left", fmt.Sprintf("%d sessions tracked, %d standby sessions connected", n, e.standbySessions), false)
		}
	})
}

// serviceProbe is the model-free counterpart of liveness: whatever happened before (concurrent
// sessions, abandoned Gets, overlapping Flushes), a fresh session must be served within a bounded
// simulated time - negotiate, announce more than the server has learnt, one next-hop ADD per network
// instance programmed, a complete Get(all, ALL) that contains them, a Flush(all) with that id
// answered OK and an empty Get afterwards. A stuck server is reported by the controller itself.
func (e *env) serviceProbe(prop, when string) {
	deadline := 60 * time.Second
	fail := func(what string) {
		e.report(prop, "not-serviceable", what+" "+when, e.sim.Describe(), false)
	}
	cur, _ := e.srv.VerifElection()
	id := [2]uint64{0, 1}
	if cur != nil {
		if cur.High == ^uint64(0) && cur.Low == ^uint64(0) {
			return // nothing higher can be announced
		}
		id = add128([2]uint64{cur.High, cur.Low}, 1)
	}
	mc := e.net.OpenModify()
	c := 6
	if e.sc.Cfg.FIBAck {
		c = 7
	}
	mc.Send(&spb.ModifyRequest{Params: comboParams(c)})
	r, err := mc.RecvTimeout(deadline)
	if err != nil || r.GetSessionParamsResult().GetStatus() != spb.SessionParametersResult_OK {
		fail(fmt.Sprintf("a new session could not negotiate (%v %v)", r, err))
	}
	mc.Send(&spb.ModifyRequest{ElectionId: uint128(id)})
	r, err = mc.RecvTimeout(deadline)
	if err != nil || r.GetElectionId() == nil {
		fail(fmt.Sprintf("a new session's election announcement was not answered (%v %v)", r, err))
	}
	if got := r.GetElectionId(); got.High != id[0] || got.Low != id[1] {
		fail(fmt.Sprintf("a session announcing more than the server had learnt (%v) was told %v", id, got))
	}
	e.maxElec = id
	nis := append([]string{e.sc.Cfg.Default}, e.sc.Cfg.VRFs...)
	var ops []*spb.AFTOperation
	want := map[string]bool{}
	for i, ni := range nis {
		ops = append(ops, &spb.AFTOperation{Id: 900000 + uint64(i), NetworkInstance: ni, Op: spb.AFTOperation_ADD, ElectionId: uint128(id),
			Entry: &spb.AFTOperation_NextHop{NextHop: &aftpb.Afts_NextHopKey{Index: 4000 + uint64(i), NextHop: &aftpb.Afts_NextHop{IpAddress: sv("198.51.100.77")}}}})
		want[fmt.Sprintf("%s/%d", ni, 4000+i)] = true
	}
	mc.Send(&spb.ModifyRequest{Operation: ops})
	got := map[uint64]spb.AFTResult_Status{}
	for len(got) < len(ops) {
		r, err := mc.RecvTimeout(deadline)
		if err != nil {
			fail(fmt.Sprintf("a new primary's ADD was not answered (%v)", err))
		}
		for _, res := range r.GetResult() {
			if res.GetId() < 900000 || res.GetId() >= 900000+uint64(len(ops)) {
				continue // a held operation of an earlier session resolved by these (KF-C06-1 territory, judged elsewhere)
			}
			if res.GetStatus() == spb.AFTResult_FAILED {
				fail(fmt.Sprintf("a new primary's next-hop ADD failed: %v", res))
			}
			if res.GetStatus() == spb.AFTResult_RIB_PROGRAMMED {
				got[res.GetId()] = res.GetStatus()
			}
		}
	}
	readAll := func(what string) map[string]bool {
		gc := e.net.OpenGet(&spb.GetRequest{NetworkInstance: &spb.GetRequest_All{All: &spb.Empty{}}, Aft: spb.AFTType_ALL})
		seen := map[string]bool{}
		for {
			gr, err := gc.RecvTimeout(deadline)
			if err == simnet.ErrTimeout {
				fail("a Get " + what + " did not complete")
			}
			if err != nil {
				if err.Error() != "EOF" && status.Code(err) != codes.OK {
					fail("a Get " + what + " failed: " + err.Error())
				}
				return seen
			}
			for _, en := range gr.GetEntry() {
				if nh := en.GetNextHop(); nh != nil {
					seen[fmt.Sprintf("%s/%d", en.GetNetworkInstance(), nh.GetIndex())] = true
				} else {
					seen[en.GetNetworkInstance()+"/other"] = true
				}
			}
		}
	}
	seen := readAll("after the probe's ADDs")
	for k := range want {
		if !seen[k] {
			fail("the next-hop " + k + " a new primary was told is programmed is not in Get")
		}
	}
	ctx, cancel := context.WithTimeout(context.Background(), deadline)
	defer cancel()
	if _, ferr := e.net.Flush(ctx, &spb.FlushRequest{NetworkInstance: &spb.FlushRequest_All{All: &spb.Empty{}}, Election: &spb.FlushRequest_Id{Id: uint128(id)}}); ferr != nil {
		fail("a Flush of all instances by the new primary failed: " + ferr.Error())
	}
	if left := readAll("after the probe's Flush"); len(left) != 0 {
		fail(fmt.Sprintf("entries left after a Flush of all instances that was answered OK: %v", len(left)))
	}
	mc.CloseSend()
	simrt.AwaitQuiescence("service-probe-end")
	e.probe("service probe completed")
}
