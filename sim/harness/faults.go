package harness

// Catalogue of single-requirement faulty servers (C19, oracle B): the reference
// server wrapped by a middlebox that breaks exactly one protocol requirement.

import (
	"context"
	"math/rand/v2"
	"strings"

	spb "github.com/openconfig/gribi/v1/proto/service"
	"github.com/openconfig/gribigo/compliance"
	"github.com/openconfig/gribigo/server"
	"google.golang.org/protobuf/proto"

	"verifsim/simnet"
	"verifsim/simrt"
)

var serverFaults = []string{
	"omit-fib-acks", "empty-get", "incomplete-get", "ignore-flush", "misreport-election-id",
	"accept-repeated-params", "nack-forward-references", "fail-idempotent-delete",
	"fail-implicit-replace", "program-non-primary",
	"get-omits-nh", "get-omits-nhg", "get-omits-ipv4", "get-omits-ipv6", "get-mislabels-ni",
}

// strictFaults: every designated test in which the fault manifested must fail (not just one of them),
// because each of those tests asks for exactly the data the fault withholds.
var strictFaults = map[string]bool{"get-omits-nh": true, "get-omits-nhg": true, "get-omits-ipv4": true, "get-omits-ipv6": true, "get-mislabels-ni": true}

// designated returns the predicate selecting the tests written for the requirement a fault breaks.
func designated(fault string) func(name string) bool {
	has := func(subs ...string) func(string) bool {
		return func(n string) bool {
			for _, s := range subs {
				if strings.Contains(n, s) {
					return true
				}
			}
			return false
		}
	}
	switch fault {
	case "omit-fib-acks":
		return has("FIB ACK")
	case "empty-get", "incomplete-get", "get-mislabels-ni":
		return has("Get for installed")
	case "get-omits-nh":
		return has("Get for installed NH -", "Get for installed chain")
	case "get-omits-nhg":
		return has("Get for installed NHG -", "Get for installed chain")
	case "get-omits-ipv4":
		return has("Get for installed IPv4", "Get for installed chain")
	case "get-omits-ipv6":
		return has("Get for installed IPv6")
	case "ignore-flush":
		return has("Flush of all entries", "Flush from client overriding", "Flush to specific network instance", "Flush all network instances", "Flush non-default network instances")
	case "misreport-election-id":
		return has("Modify RPC Connection with Election ID", "Election - Decrementing election ID", "Election - Incrementing election ID", "Election - Lower election ID", "Election - Matching parameters", "Election - Sending same election ID")
	case "accept-repeated-params":
		return has("repeated SessionParameters")
	case "nack-forward-references":
		return has("in random order")
	case "fail-idempotent-delete":
		return has("Idempotent Delete")
	case "fail-implicit-replace":
		return has("Implicit replace")
	case "program-non-primary":
		return has("Election - Lower election ID", "Election - Unannounced master", "Election - Incrementing election ID", "Election - Decrementing election ID", "Flush from non-elected")
	}
	return func(string) bool { return false }
}

func genSuiteFault(seed uint64, prop string) *Scenario {
	r := rand.New(rand.NewPCG(seed, 0x73756974656662))
	fault := serverFaults[int(seed)%len(serverFaults)]
	cfg := ScenCfg{Default: "DEFAULT", VRFs: []string{"NON-DEFAULT-VRF"}, FwdRefs: fault != "nack-forward-references", Policy: "fifo"}
	sc := &Scenario{Family: "suitefault", Seed: seed, Cfg: cfg}
	sc.Steps = append(sc.Steps, Step{T: "base", A: r.IntN(len(elecBases))}, Step{T: "srvfault", Note: fault})
	des := designated(fault)
	var want, other []int
	for _, i := range suiteIndex() {
		if des(compliance.TestSuite[i].In.ShortName) {
			want = append(want, i)
		} else {
			other = append(other, i)
		}
	}
	r.Shuffle(len(want), func(i, j int) { want[i], want[j] = want[j], want[i] })
	r.Shuffle(len(other), func(i, j int) { other[i], other[j] = other[j], other[i] })
	// the designated tests (at most 6) mixed with a few unrelated ones
	if len(want) > 6 {
		want = want[:6]
	}
	idx := append(want, other[:2+r.IntN(3)]...)
	r.Shuffle(len(idx), func(i, j int) { idx[i], idx[j] = idx[j], idx[i] })
	for _, i := range idx {
		sc.Steps = append(sc.Steps, Step{T: "test", A: i, Note: compliance.TestSuite[i].In.ShortName})
	}
	return sc
}

// faultyModify wraps the server side of a Modify stream.
type faultyModify struct {
	spb.GRIBI_ModifyServer
	fault      string
	srv        *server.Server
	sawParams  bool
	failIDs    map[uint64]bool
	inject     []*spb.ModifyRequest
	swallowRes int // election responses to swallow (injected announcements)
}

func (f *faultyModify) Recv() (*spb.ModifyRequest, error) {
	for {
		if len(f.inject) > 0 {
			m := f.inject[0]
			f.inject = f.inject[1:]
			return m, nil
		}
		m, err := f.GRIBI_ModifyServer.Recv()
		if err != nil {
			return m, err
		}
		switch f.fault {
		case "accept-repeated-params":
			if m.Params != nil && m.ElectionId == nil && len(m.Operation) == 0 {
				if f.sawParams {
					simrt.Active().Fault("srv-fault:" + f.fault)
					f.GRIBI_ModifyServer.Send(&spb.ModifyResponse{SessionParamsResult: &spb.SessionParametersResult{Status: spb.SessionParametersResult_OK}})
					continue
				}
				f.sawParams = true
			}
		case "fail-idempotent-delete", "fail-implicit-replace":
			if len(m.Operation) > 0 {
				rc, _ := f.srv.VerifRIB().RIBContents()
				snap, _ := snapFromRIBContents(rc)
				md := &Model{NIs: map[string]bool{}}
				for ni := range rc {
					md.NIs[ni] = true
				}
				for _, op := range m.Operation {
					_, en, _ := md.Analyse(op)
					if en == nil {
						continue
					}
					_, exists := snap[en.Key]
					if (f.fault == "fail-idempotent-delete" && op.GetOp() == spb.AFTOperation_DELETE && !exists) ||
						(f.fault == "fail-implicit-replace" && op.GetOp() == spb.AFTOperation_ADD && exists) {
						f.failIDs[op.GetId()] = true
					}
				}
			}
		case "program-non-primary":
			if len(m.Operation) > 0 {
				if id, _ := f.srv.VerifElection(); id != nil {
					// make this session the primary behind the client's back and stamp its operations accordingly
					simrt.Active().Fault("srv-fault:" + f.fault)
					f.swallowRes++
					c := proto.Clone(m).(*spb.ModifyRequest)
					idc := proto.Clone(id).(*spb.Uint128)
					for _, op := range c.Operation {
						op.ElectionId = idc
					}
					f.inject = append(f.inject, c)
					return &spb.ModifyRequest{ElectionId: idc}, nil
				}
			}
		}
		return m, nil
	}
}

func (f *faultyModify) Send(r *spb.ModifyResponse) error {
	switch f.fault {
	case "nack-forward-references":
		for _, res := range r.Result {
			if res.GetStatus() == spb.AFTResult_FAILED && strings.Contains(res.GetErrorDetails().GetErrorMessage(), "unresolved") {
				simrt.Active().Fault("srv-fault:" + f.fault)
			}
		}
	case "omit-fib-acks":
		if len(r.Result) > 0 {
			c := proto.Clone(r).(*spb.ModifyResponse)
			c.Result = nil
			for _, res := range r.Result {
				if res.GetStatus() == spb.AFTResult_FIB_PROGRAMMED {
					simrt.Active().Fault("srv-fault:" + f.fault)
					continue
				}
				c.Result = append(c.Result, res)
			}
			r = c
		}
	case "misreport-election-id":
		if r.ElectionId != nil {
			simrt.Active().Fault("srv-fault:" + f.fault)
			c := proto.Clone(r).(*spb.ModifyResponse)
			c.ElectionId.Low ^= 1 // off by one
			r = c
		}
	case "fail-idempotent-delete", "fail-implicit-replace":
		if len(r.Result) > 0 {
			c := proto.Clone(r).(*spb.ModifyResponse)
			c.Result = nil
			for _, res := range r.Result {
				if f.failIDs[res.GetId()] {
					simrt.Active().Fault("srv-fault:" + f.fault)
					if res.GetStatus() == spb.AFTResult_FIB_PROGRAMMED {
						continue
					}
					res = &spb.AFTResult{Id: res.GetId(), Status: spb.AFTResult_FAILED}
				}
				c.Result = append(c.Result, res)
			}
			r = c
		}
	case "program-non-primary":
		if r.ElectionId != nil && f.swallowRes > 0 {
			f.swallowRes--
			return nil
		}
	}
	return f.GRIBI_ModifyServer.Send(r)
}

type faultyGet struct {
	spb.GRIBI_GetServer
	fault string
	n     int
}

func (f *faultyGet) Send(r *spb.GetResponse) error {
	switch f.fault {
	case "empty-get":
		simrt.Active().Fault("srv-fault:" + f.fault)
		return nil
	case "incomplete-get":
		f.n++
		if f.n%2 == 1 {
			simrt.Active().Fault("srv-fault:" + f.fault)
			return nil
		}
	case "get-omits-nh", "get-omits-nhg", "get-omits-ipv4", "get-omits-ipv6":
		// the response lacks every entry of one AFT; everything else is delivered
		c := &spb.GetResponse{}
		for _, en := range r.Entry {
			drop := false
			switch en.Entry.(type) {
			case *spb.AFTEntry_NextHop:
				drop = f.fault == "get-omits-nh"
			case *spb.AFTEntry_NextHopGroup:
				drop = f.fault == "get-omits-nhg"
			case *spb.AFTEntry_Ipv4:
				drop = f.fault == "get-omits-ipv4"
			case *spb.AFTEntry_Ipv6:
				drop = f.fault == "get-omits-ipv6"
			}
			if drop {
				simrt.Active().Fault("srv-fault:" + f.fault)
				continue
			}
			c.Entry = append(c.Entry, en)
		}
		if len(c.Entry) == 0 {
			return nil
		}
		r = c
	case "get-mislabels-ni":
		c := proto.Clone(r).(*spb.GetResponse)
		for _, en := range c.Entry {
			simrt.Active().Fault("srv-fault:" + f.fault)
			en.NetworkInstance += "-other"
		}
		r = c
	}
	return f.GRIBI_GetServer.Send(r)
}

func installFault(sr *suiteRun, n *simnet.Net, s *server.Server, fault string) {
	switch fault {
	case "empty-get", "incomplete-get", "get-omits-nh", "get-omits-nhg", "get-omits-ipv4", "get-omits-ipv6", "get-mislabels-ni":
		n.WrapGet = func(g spb.GRIBI_GetServer) spb.GRIBI_GetServer { return &faultyGet{GRIBI_GetServer: g, fault: fault} }
	case "ignore-flush":
		n.FlushHook = func(ctx context.Context, req *spb.FlushRequest, next func() (*spb.FlushResponse, error)) (*spb.FlushResponse, error) {
			// still validate the request like the real server, but do not flush
			if req.GetNetworkInstance() == nil {
				return next()
			}
			if id := req.GetId(); id != nil {
				if cur, _ := s.VerifElection(); cur != nil && less128([2]uint64{id.High, id.Low}, [2]uint64{cur.High, cur.Low}) {
					return next()
				}
			}
			simrt.Active().Fault("srv-fault:" + fault)
			return &spb.FlushResponse{Result: spb.FlushResponse_OK}, nil
		}
	default:
		// (nack-forward-references: the server itself is built with WithNoRIBForwardReferences;
		// the wrapper only observes whether a forward reference was actually NACKed)
		n.WrapModify = func(m spb.GRIBI_ModifyServer) spb.GRIBI_ModifyServer {
			return &faultyModify{GRIBI_ModifyServer: m, fault: fault, srv: s, failIDs: map[uint64]bool{}}
		}
	}
}
