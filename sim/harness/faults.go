package harness

// Catalogue of single-requirement faulty servers (C19, oracle B): the reference
// server wrapped by a middlebox that breaks exactly one protocol requirement.

import (
	"context"
	"math/rand/v2"
	"strings"

	spb "github.com/openconfig/gribi/v1/proto/service"
	"github.com/openconfig/gribigo/compliance"
	"github.com/openconfig/gribigo/server"
	"google.golang.org/protobuf/proto"

	"verifsim/simnet"
	"verifsim/simrt"
)

var serverFaults = []string{
	"omit-fib-acks", "empty-get", "incomplete-get", "ignore-flush", "misreport-election-id",
	"accept-repeated-params", "nack-forward-references", "fail-idempotent-delete",
	"fail-implicit-replace", "program-non-primary",
	"get-omits-nh", "get-omits-nhg", "get-omits-ipv4", "get-omits-ipv6", "get-mislabels-ni",
	// verdict-rewriting servers: one class of operation is answered with the wrong verdict
	"allow-delete-referenced", "ack-invalid-entries", "accept-replace-of-missing", "accept-disallowed-forward-reference",
	"fail-mpls", "fail-ipv6", "fail-delete", "fail-cross-instance-reference",
	// session-rule-breaking servers
	"accept-multi-field-messages", "accept-zero-election-id", "accept-unsupported-params", "accept-mismatched-params",
	"leak-results-to-other-clients", "flush-on-new-primary", "fail-entries-with-metadata",
	"report-own-election-id", "report-previous-election-id",
	// Get returns entries of one kind under a key that was never programmed (stale / wrong data) - the instance is there
	"get-rekeys-ipv4", "get-rekeys-ipv6", "get-rekeys-nhg", "get-rekeys-nh",
	// the basics and the remaining Flush rules (every test of the suite has at least one faulty server it must flag)
	"fail-ipv4-adds", "fail-nhg-adds", "reject-identical-nexthops",
	"flush-ignores-election", "flush-defaults-to-all", "flush-always-all",
	// one kind of entry cannot be deleted (the deletion happens, the verdict says FAILED)
	"fail-nh-deletes", "fail-nhg-deletes", "fail-ipv4-deletes",
}

// Every designated test in which the fault manifested must fail (not just one of them): with the
// designations below each such test checks exactly the data, verdict or session rule the fault breaks
// (on the unchanged tree: 0 passes in 42 000 runs with every fault judged this way). lenientFaults would
// list faults for which one failing designated test is enough; there is none at present.
var lenientFaults = map[string]bool{}

// designated returns the predicate selecting the tests written for the requirement a fault breaks.
func designated(fault string) func(name string) bool {
	has := func(subs ...string) func(string) bool {
		return func(n string) bool {
			for _, s := range subs {
				if strings.Contains(n, s) {
					return true
				}
			}
			return false
		}
	}
	switch fault {
	case "omit-fib-acks":
		return has("FIB ACK")
	case "empty-get", "incomplete-get", "get-mislabels-ni":
		return has("Get for installed")
	case "get-omits-nh":
		return has("Get for installed NH -", "Get for installed chain")
	case "get-omits-nhg":
		return has("Get for installed NHG -", "Get for installed chain")
	case "get-omits-ipv4":
		return has("Get for installed IPv4", "Get for installed chain")
	case "get-omits-ipv6", "get-rekeys-ipv6":
		return has("Get for installed IPv6")
	case "get-rekeys-ipv4":
		return has("Get for installed IPv4", "Get for installed chain")
	case "get-rekeys-nhg":
		return has("Get for installed NHG -", "Get for installed chain")
	case "get-rekeys-nh":
		return has("Get for installed NH -", "Get for installed chain")
	case "ignore-flush":
		// ("Flush non-default network instances preserves the default" flushes an empty instance: ignoring that is invisible)
		return has("Flush of all entries", "Flush from client overriding", "Flush to specific network instance", "Flush all network instances")
	case "misreport-election-id":
		return has("Modify RPC Connection with Election ID", "Election - Decrementing election ID", "Election - Incrementing election ID", "Election - Lower election ID", "Election - Matching parameters", "Election - Sending same election ID")
	case "accept-repeated-params":
		return has("repeated SessionParameters")
	case "nack-forward-references":
		return has("in random order")
	case "fail-idempotent-delete":
		return has("Idempotent Delete")
	case "fail-implicit-replace":
		return has("Implicit replace")
	case "program-non-primary":
		return has("Election - Lower election ID", "Election - Unannounced master", "Election - Incrementing election ID", "Election - Decrementing election ID")
	case "allow-delete-referenced":
		return has("that is referenced - failure")
	case "ack-invalid-entries":
		return has("Error: Empty NextHopGroup", "Error: Invalid prefix", "Error: Missing NextHopGroup", "Add to a nonexistent network instance")
	case "accept-replace-of-missing":
		return has("entry that does not exist")
	case "accept-disallowed-forward-reference":
		return has("Add a forward reference to a server that disallows it")
	case "fail-mpls":
		return has("MPLS ")
	case "fail-ipv6":
		return has("Add IPv6 entry", "Get for installed IPv6")
	case "fail-delete":
		return has("entry successfully", "MPLS delete entry", "Delete IPv4 entry within default", "Add-Delete-Add")
	case "fail-cross-instance-reference":
		return has("references a NHG in a different network instance")
	case "accept-multi-field-messages":
		return has("in same ModifyRequest")
	case "accept-zero-election-id":
		return has("Sending election ID as zero")
	case "accept-unsupported-params":
		return has("invalid persist/redundancy parameters", "election ID is not accepted in ALL_PRIMARY mode")
	case "fail-ipv4-adds":
		return has("Add IPv4 entry that can be programmed", "Add IPv4 entries that are resolved to a next-hop-group")
	case "fail-nhg-adds":
		return has("Add next-hop-group entry that can be resolved")
	case "reject-identical-nexthops":
		return has("Add two NextHops with identical contents")
	case "fail-nh-deletes":
		return has("Delete NH entry successfully", "Idempotent Delete")
	case "fail-nhg-deletes":
		return has("Delete NHG entry successfully", "Delete NH entry successfully", "Idempotent Delete")
	case "fail-ipv4-deletes":
		return has("Delete IPv4 entry within default", "Delete NHG entry successfully", "Delete NH entry successfully", "Add-Delete-Add", "Idempotent Delete")
	case "flush-ignores-election":
		return has("Flush from non-elected master returns error")
	case "flush-defaults-to-all":
		return has("Flush without specifying network instance returns error")
	case "flush-always-all":
		return has("Flush non-default network instances preserves the default", "Flush to specific network instance is honoured")
	case "accept-mismatched-params":
		return has("differing parameters is rejected", "mismatched parameters is rejected")
	case "leak-results-to-other-clients":
		return has("must not be sent to other clients")
	case "flush-on-new-primary":
		return has("Active entries after new master connects")
	case "fail-entries-with-metadata":
		return has("Add Metadata for IPv4 entry", "Add IPv6 entry with metadata")
	case "report-previous-election-id":
		// (only the answer to a further announcement on an established stream lags behind)
		return has("Election - Incrementing election ID")
	case "report-own-election-id":
		// (only an announcement BELOW the highest id is answered wrongly)
		return has("Election - Lower election ID", "Election - Decrementing election ID")
	}
	return func(string) bool { return false }
}

func genSuiteFault(seed uint64, prop string) *Scenario {
	r := rand.New(rand.NewPCG(seed, 0x73756974656662))
	fault := serverFaults[int(seed)%len(serverFaults)]
	cfg := ScenCfg{Default: "DEFAULT", VRFs: []string{"NON-DEFAULT-VRF"}, FwdRefs: fault != "nack-forward-references", Policy: "fifo"}
	sc := &Scenario{Family: "suitefault", Seed: seed, Cfg: cfg}
	sc.Steps = append(sc.Steps, Step{T: "base", A: r.IntN(len(elecBases))}, Step{T: "srvfault", Note: fault})
	des := designated(fault)
	var want, other []int
	for _, i := range suiteIndex() {
		if des(compliance.TestSuite[i].In.ShortName) {
			want = append(want, i)
		} else {
			other = append(other, i)
		}
	}
	r.Shuffle(len(want), func(i, j int) { want[i], want[j] = want[j], want[i] })
	r.Shuffle(len(other), func(i, j int) { other[i], other[j] = other[j], other[i] })
	// the designated tests (at most 6) mixed with a few unrelated ones
	if len(want) > 6 {
		want = want[:6]
	}
	idx := append(want, other[:2+r.IntN(3)]...)
	r.Shuffle(len(idx), func(i, j int) { idx[i], idx[j] = idx[j], idx[i] })
	for _, i := range idx {
		sc.Steps = append(sc.Steps, Step{T: "test", A: i, Note: compliance.TestSuite[i].In.ShortName})
	}
	return sc
}

// faultyModify wraps the server side of a Modify stream.
type faultyModify struct {
	spb.GRIBI_ModifyServer
	fault      string
	srv        *server.Server
	sawParams  bool
	failIDs    map[uint64]bool
	inject     []*spb.ModifyRequest
	swallowRes int // election responses to swallow (injected announcements)
	gone       bool
	fibAck     bool
	ops        map[uint64]*spb.AFTOperation
	sr         *suiteRun
	lastElec   *spb.Uint128
}

// rewriteVerdict: for the verdict-rewriting faults, the status this server reports instead of st for op (or st itself).
func (f *faultyModify) rewriteVerdict(op *spb.AFTOperation, st spb.AFTResult_Status) spb.AFTResult_Status {
	if op == nil {
		return st
	}
	failed, okd := st == spb.AFTResult_FAILED, st == spb.AFTResult_RIB_PROGRAMMED || st == spb.AFTResult_FIB_PROGRAMMED
	isDel := op.GetOp() == spb.AFTOperation_DELETE
	switch f.fault {
	case "allow-delete-referenced":
		if failed && isDel && (op.GetNextHop() != nil || op.GetNextHopGroup() != nil) {
			return spb.AFTResult_RIB_PROGRAMMED
		}
	case "ack-invalid-entries":
		if failed && op.GetOp() == spb.AFTOperation_ADD {
			return spb.AFTResult_RIB_PROGRAMMED
		}
	case "accept-replace-of-missing":
		if failed && op.GetOp() == spb.AFTOperation_REPLACE {
			return spb.AFTResult_RIB_PROGRAMMED
		}
	case "accept-disallowed-forward-reference":
		if failed && op.GetOp() == spb.AFTOperation_ADD {
			return spb.AFTResult_RIB_PROGRAMMED
		}
	case "fail-mpls":
		if okd && op.GetMpls() != nil {
			return spb.AFTResult_FAILED
		}
	case "fail-ipv6":
		if okd && op.GetIpv6() != nil {
			return spb.AFTResult_FAILED
		}
	case "fail-delete":
		if okd && isDel {
			return spb.AFTResult_FAILED
		}
	case "fail-cross-instance-reference":
		if okd && !isDel && op.GetIpv4().GetIpv4Entry().GetNextHopGroupNetworkInstance() != nil {
			return spb.AFTResult_FAILED
		}
	case "fail-ipv4-adds":
		if okd && op.GetOp() == spb.AFTOperation_ADD && op.GetIpv4() != nil {
			return spb.AFTResult_FAILED
		}
	case "fail-nhg-adds":
		if okd && op.GetOp() == spb.AFTOperation_ADD && op.GetNextHopGroup() != nil {
			return spb.AFTResult_FAILED
		}
	case "fail-nh-deletes":
		if okd && isDel && op.GetNextHop() != nil {
			return spb.AFTResult_FAILED
		}
	case "fail-nhg-deletes":
		if okd && isDel && op.GetNextHopGroup() != nil {
			return spb.AFTResult_FAILED
		}
	case "fail-ipv4-deletes":
		if okd && isDel && op.GetIpv4() != nil {
			return spb.AFTResult_FAILED
		}
	case "reject-identical-nexthops":
		// a next-hop whose contents equal those of another next-hop this session has programmed is refused
		if okd && op.GetOp() == spb.AFTOperation_ADD && op.GetNextHop() != nil {
			for _, o := range f.ops {
				if o != op && o.GetId() < op.GetId() && o.GetNextHop() != nil && o.GetNextHop().GetIndex() != op.GetNextHop().GetIndex() &&
					o.GetNetworkInstance() == op.GetNetworkInstance() && proto.Equal(o.GetNextHop().GetNextHop(), op.GetNextHop().GetNextHop()) {
					return spb.AFTResult_FAILED
				}
			}
		}
	case "fail-entries-with-metadata":
		if okd && !isDel && (op.GetIpv4().GetIpv4Entry().GetEntryMetadata() != nil || op.GetIpv6().GetIpv6Entry().GetEntryMetadata() != nil) {
			return spb.AFTResult_FAILED
		}
	}
	return st
}

var rewriteFaults = map[string]bool{"allow-delete-referenced": true, "ack-invalid-entries": true, "accept-replace-of-missing": true,
	"accept-disallowed-forward-reference": true, "fail-mpls": true, "fail-ipv6": true, "fail-delete": true, "fail-cross-instance-reference": true, "fail-entries-with-metadata": true,
	"fail-ipv4-adds": true, "fail-nhg-adds": true, "reject-identical-nexthops": true,
	"fail-nh-deletes": true, "fail-nhg-deletes": true, "fail-ipv4-deletes": true}

func supportedParams(p *spb.SessionParameters) bool {
	return p.GetRedundancy() == spb.SessionParameters_SINGLE_PRIMARY && p.GetPersistence() == spb.SessionParameters_PRESERVE
}

func (f *faultyModify) Recv() (*spb.ModifyRequest, error) {
	for {
		if len(f.inject) > 0 {
			m := f.inject[0]
			f.inject = f.inject[1:]
			return m, nil
		}
		m, err := f.GRIBI_ModifyServer.Recv()
		if err != nil {
			f.gone = true
			return m, err
		}
		for _, op := range m.Operation {
			f.ops[op.GetId()] = op
		}
		if m.Params != nil {
			f.fibAck = m.Params.GetAckType() == spb.SessionParameters_RIB_AND_FIB_ACK
		}
		if id := m.ElectionId; id != nil && f.sr != nil {
			if f.sr.maxSeen == nil {
				f.sr.maxSeen = map[*server.Server]*spb.Uint128{}
			}
			if cur := f.sr.maxSeen[f.srv]; cur == nil || less128([2]uint64{cur.High, cur.Low}, [2]uint64{id.High, id.Low}) {
				f.sr.maxSeen[f.srv] = proto.Clone(id).(*spb.Uint128)
			}
		}
		fired := func() { simrt.Active().Fault("srv-fault:" + f.fault) }
		switch f.fault {
		case "accept-multi-field-messages":
			n := 0
			if m.Params != nil {
				n++
			}
			if m.ElectionId != nil {
				n++
			}
			if len(m.Operation) > 0 {
				n++
			}
			if n > 1 {
				// taken apart and processed field by field instead of being rejected
				fired()
				var parts []*spb.ModifyRequest
				if m.Params != nil {
					parts = append(parts, &spb.ModifyRequest{Params: m.Params})
				}
				if m.ElectionId != nil {
					parts = append(parts, &spb.ModifyRequest{ElectionId: m.ElectionId})
				}
				if len(m.Operation) > 0 {
					parts = append(parts, &spb.ModifyRequest{Operation: m.Operation})
				}
				f.inject = append(f.inject, parts[1:]...)
				return parts[0], nil
			}
		case "report-own-election-id":
			if m.ElectionId != nil && m.Params == nil && len(m.Operation) == 0 {
				f.lastElec = proto.Clone(m.ElectionId).(*spb.Uint128)
			}
		case "accept-zero-election-id":
			if id := m.ElectionId; id != nil && id.High == 0 && id.Low == 0 && m.Params == nil && len(m.Operation) == 0 {
				fired()
				f.GRIBI_ModifyServer.Send(&spb.ModifyResponse{ElectionId: &spb.Uint128{}})
				continue
			}
		case "accept-unsupported-params":
			if m.Params != nil && !supportedParams(m.Params) {
				fired()
				c := proto.Clone(m).(*spb.ModifyRequest)
				c.Params.Redundancy, c.Params.Persistence = spb.SessionParameters_SINGLE_PRIMARY, spb.SessionParameters_PRESERVE
				return c, nil
			}
		case "accept-mismatched-params":
			if m.Params != nil && supportedParams(m.Params) {
				// every session is recorded with the first session's acknowledgement type, so a second client
				// asking for something else is accepted
				if f.sr.firstParams == nil {
					f.sr.firstParams = proto.Clone(m.Params).(*spb.SessionParameters)
				} else if !proto.Equal(f.sr.firstParams, m.Params) {
					fired()
					c := proto.Clone(m).(*spb.ModifyRequest)
					c.Params = proto.Clone(f.sr.firstParams).(*spb.SessionParameters)
					return c, nil
				}
			}
		case "flush-on-new-primary":
			if id := m.ElectionId; id != nil && m.Params == nil && len(m.Operation) == 0 {
				if cur, _ := f.srv.VerifElection(); cur != nil && less128([2]uint64{cur.High, cur.Low}, [2]uint64{id.High, id.Low}) {
					rc, _ := f.srv.VerifRIB().RIBContents()
					n := 0
					var nis []string
					for ni, r := range rc {
						nis = append(nis, ni)
						n += len(r.GetAfts().Ipv4Entry) + len(r.GetAfts().NextHop) + len(r.GetAfts().NextHopGroup)
					}
					if n > 0 {
						fired() // entries of the previous primary do not survive the hand-over
						f.srv.VerifRIB().Flush(nis)
					}
				}
			}
		case "accept-repeated-params":
			if m.Params != nil && m.ElectionId == nil && len(m.Operation) == 0 {
				if f.sawParams {
					simrt.Active().Fault("srv-fault:" + f.fault)
					f.GRIBI_ModifyServer.Send(&spb.ModifyResponse{SessionParamsResult: &spb.SessionParametersResult{Status: spb.SessionParametersResult_OK}})
					continue
				}
				f.sawParams = true
			}
		case "fail-idempotent-delete", "fail-implicit-replace":
			if len(m.Operation) > 0 {
				rc, _ := f.srv.VerifRIB().RIBContents()
				snap, _ := snapFromRIBContents(rc)
				md := &Model{NIs: map[string]bool{}}
				for ni := range rc {
					md.NIs[ni] = true
				}
				for _, op := range m.Operation {
					_, en, _ := md.Analyse(op)
					if en == nil {
						continue
					}
					_, exists := snap[en.Key]
					if (f.fault == "fail-idempotent-delete" && op.GetOp() == spb.AFTOperation_DELETE && !exists) ||
						(f.fault == "fail-implicit-replace" && op.GetOp() == spb.AFTOperation_ADD && exists) {
						f.failIDs[op.GetId()] = true
					}
				}
			}
		case "program-non-primary":
			if len(m.Operation) > 0 {
				id, _ := f.srv.VerifElection()
				if seen := f.sr.maxSeen[f.srv]; seen != nil && (id == nil || less128([2]uint64{id.High, id.Low}, [2]uint64{seen.High, seen.Low})) {
					id = seen
				}
				if id != nil {
					// make this session the primary behind the client's back and stamp its operations accordingly
					simrt.Active().Fault("srv-fault:" + f.fault)
					f.swallowRes++
					c := proto.Clone(m).(*spb.ModifyRequest)
					idc := proto.Clone(id).(*spb.Uint128)
					for _, op := range c.Operation {
						op.ElectionId = idc
					}
					f.inject = append(f.inject, c)
					return &spb.ModifyRequest{ElectionId: idc}, nil
				}
			}
		}
		return m, nil
	}
}

func (f *faultyModify) Send(r *spb.ModifyResponse) error {
	if rewriteFaults[f.fault] && len(r.Result) > 0 {
		c := proto.Clone(r).(*spb.ModifyResponse)
		c.Result = nil
		done := map[uint64]bool{}
		for _, res := range r.Result {
			st := f.rewriteVerdict(f.ops[res.GetId()], res.GetStatus())
			if st != res.GetStatus() {
				simrt.Active().Fault("srv-fault:" + f.fault)
				if done[res.GetId()] {
					continue // RIB and FIB acknowledgement both became FAILED: one is enough
				}
				done[res.GetId()] = true
				res = &spb.AFTResult{Id: res.GetId(), Status: st}
				c.Result = append(c.Result, res)
				if st == spb.AFTResult_RIB_PROGRAMMED && f.fibAck {
					// a server that accepts the operation acknowledges it the way the session asked for
					c.Result = append(c.Result, &spb.AFTResult{Id: res.GetId(), Status: spb.AFTResult_FIB_PROGRAMMED})
				}
				continue
			}
			c.Result = append(c.Result, res)
		}
		r = c
	}
	if f.fault == "leak-results-to-other-clients" && len(r.Result) > 0 {
		for _, o := range f.sr.modifyStreams {
			if o != f && !o.gone {
				simrt.Active().Fault("srv-fault:" + f.fault)
				o.GRIBI_ModifyServer.Send(proto.Clone(r).(*spb.ModifyResponse))
			}
		}
	}
	switch f.fault {
	case "nack-forward-references":
		for _, res := range r.Result {
			// (whatever the wording of the error: in the designated test every entry is valid, so an ADD can
			// only be refused for a reference that is not there yet)
			if op := f.ops[res.GetId()]; res.GetStatus() == spb.AFTResult_FAILED && op != nil && op.GetOp() == spb.AFTOperation_ADD {
				simrt.Active().Fault("srv-fault:" + f.fault)
			}
		}
	case "omit-fib-acks":
		if len(r.Result) > 0 {
			c := proto.Clone(r).(*spb.ModifyResponse)
			c.Result = nil
			for _, res := range r.Result {
				if res.GetStatus() == spb.AFTResult_FIB_PROGRAMMED {
					simrt.Active().Fault("srv-fault:" + f.fault)
					continue
				}
				c.Result = append(c.Result, res)
			}
			r = c
		}
	case "report-previous-election-id":
		// the answer to a further announcement on an established stream carries what the previous answer carried
		if r.ElectionId != nil {
			prev := f.lastElec
			f.lastElec = proto.Clone(r.ElectionId).(*spb.Uint128)
			if prev != nil && !proto.Equal(prev, r.ElectionId) {
				simrt.Active().Fault("srv-fault:" + f.fault)
				c := proto.Clone(r).(*spb.ModifyResponse)
				c.ElectionId = prev
				r = c
			}
		}
	case "report-own-election-id":
		// an election update is answered with the id the client itself announced, not with the highest one
		if r.ElectionId != nil && f.lastElec != nil && !proto.Equal(r.ElectionId, f.lastElec) {
			simrt.Active().Fault("srv-fault:" + f.fault)
			c := proto.Clone(r).(*spb.ModifyResponse)
			c.ElectionId = proto.Clone(f.lastElec).(*spb.Uint128)
			r = c
		}
	case "misreport-election-id":
		if r.ElectionId != nil {
			simrt.Active().Fault("srv-fault:" + f.fault)
			c := proto.Clone(r).(*spb.ModifyResponse)
			c.ElectionId.High ^= 0x5a5a0000 // an id nobody ever announced (an off-by-one id can equal the id a later check of the same test waits for)
			r = c
		}
	case "fail-idempotent-delete", "fail-implicit-replace":
		if len(r.Result) > 0 {
			c := proto.Clone(r).(*spb.ModifyResponse)
			c.Result = nil
			for _, res := range r.Result {
				if f.failIDs[res.GetId()] {
					simrt.Active().Fault("srv-fault:" + f.fault)
					if res.GetStatus() == spb.AFTResult_FIB_PROGRAMMED {
						continue
					}
					res = &spb.AFTResult{Id: res.GetId(), Status: spb.AFTResult_FAILED}
				}
				c.Result = append(c.Result, res)
			}
			r = c
		}
	case "program-non-primary":
		if r.ElectionId != nil && f.swallowRes > 0 {
			f.swallowRes--
			return nil
		}
	}
	return f.GRIBI_ModifyServer.Send(r)
}

type faultyGet struct {
	spb.GRIBI_GetServer
	fault string
	n     int
}

func (f *faultyGet) Send(r *spb.GetResponse) error {
	switch f.fault {
	case "empty-get":
		simrt.Active().Fault("srv-fault:" + f.fault)
		return nil
	case "incomplete-get":
		// (every other response that carries entries is lost; an empty one loses nothing)
		if len(r.GetEntry()) > 0 {
			f.n++
			if f.n%2 == 1 {
				simrt.Active().Fault("srv-fault:" + f.fault)
				return nil
			}
		}
	case "get-omits-nh", "get-omits-nhg", "get-omits-ipv4", "get-omits-ipv6":
		// the response lacks every entry of one AFT; everything else is delivered
		c := &spb.GetResponse{}
		for _, en := range r.Entry {
			drop := false
			switch en.Entry.(type) {
			case *spb.AFTEntry_NextHop:
				drop = f.fault == "get-omits-nh"
			case *spb.AFTEntry_NextHopGroup:
				drop = f.fault == "get-omits-nhg"
			case *spb.AFTEntry_Ipv4:
				drop = f.fault == "get-omits-ipv4"
			case *spb.AFTEntry_Ipv6:
				drop = f.fault == "get-omits-ipv6"
			}
			if drop {
				simrt.Active().Fault("srv-fault:" + f.fault)
				continue
			}
			c.Entry = append(c.Entry, en)
		}
		if len(c.Entry) == 0 {
			return nil
		}
		r = c
	case "get-rekeys-ipv4", "get-rekeys-ipv6", "get-rekeys-nhg", "get-rekeys-nh":
		c := proto.Clone(r).(*spb.GetResponse)
		for _, en := range c.Entry {
			switch t := en.Entry.(type) {
			case *spb.AFTEntry_Ipv4:
				if f.fault == "get-rekeys-ipv4" {
					simrt.Active().Fault("srv-fault:" + f.fault)
					t.Ipv4.Prefix = "203.0.113.77/32"
				}
			case *spb.AFTEntry_Ipv6:
				if f.fault == "get-rekeys-ipv6" {
					simrt.Active().Fault("srv-fault:" + f.fault)
					t.Ipv6.Prefix = "2001:db8:dead::/48"
				}
			case *spb.AFTEntry_NextHopGroup:
				if f.fault == "get-rekeys-nhg" {
					simrt.Active().Fault("srv-fault:" + f.fault)
					t.NextHopGroup.Id += 7777
				}
			case *spb.AFTEntry_NextHop:
				if f.fault == "get-rekeys-nh" {
					simrt.Active().Fault("srv-fault:" + f.fault)
					t.NextHop.Index += 7777
				}
			}
		}
		r = c
	case "get-mislabels-ni":
		c := proto.Clone(r).(*spb.GetResponse)
		for _, en := range c.Entry {
			simrt.Active().Fault("srv-fault:" + f.fault)
			en.NetworkInstance += "-other"
		}
		r = c
	}
	return f.GRIBI_GetServer.Send(r)
}

func installFault(sr *suiteRun, n *simnet.Net, s *server.Server, fault string) {
	switch fault {
	case "empty-get", "incomplete-get", "get-omits-nh", "get-omits-nhg", "get-omits-ipv4", "get-omits-ipv6", "get-mislabels-ni", "get-rekeys-ipv4", "get-rekeys-ipv6", "get-rekeys-nhg", "get-rekeys-nh":
		n.WrapGet = func(g spb.GRIBI_GetServer) spb.GRIBI_GetServer { return &faultyGet{GRIBI_GetServer: g, fault: fault} }
	case "flush-ignores-election", "flush-defaults-to-all", "flush-always-all":
		n.FlushHook = func(ctx context.Context, req *spb.FlushRequest, next func() (*spb.FlushResponse, error)) (*spb.FlushResponse, error) {
			c := proto.Clone(req).(*spb.FlushRequest)
			switch fault {
			case "flush-ignores-election":
				// whatever the request says about the election is overridden
				if id := req.GetId(); id != nil {
					if cur, _ := s.VerifElection(); cur != nil && less128([2]uint64{id.High, id.Low}, [2]uint64{cur.High, cur.Low}) {
						simrt.Active().Fault("srv-fault:" + fault)
						c.Election = &spb.FlushRequest_Override{Override: &spb.Empty{}}
						return s.Flush(ctx, c)
					}
				}
			case "flush-defaults-to-all":
				if req.GetNetworkInstance() == nil {
					simrt.Active().Fault("srv-fault:" + fault)
					c.NetworkInstance = &spb.FlushRequest_All{All: &spb.Empty{}}
					return s.Flush(ctx, c)
				}
			case "flush-always-all":
				if _, named := req.GetNetworkInstance().(*spb.FlushRequest_Name); named {
					simrt.Active().Fault("srv-fault:" + fault)
					c.NetworkInstance = &spb.FlushRequest_All{All: &spb.Empty{}}
					return s.Flush(ctx, c)
				}
			}
			return next()
		}
	case "ignore-flush":
		n.FlushHook = func(ctx context.Context, req *spb.FlushRequest, next func() (*spb.FlushResponse, error)) (*spb.FlushResponse, error) {
			// still validate the request like the real server, but do not flush
			if req.GetNetworkInstance() == nil {
				return next()
			}
			if id := req.GetId(); id != nil {
				if cur, _ := s.VerifElection(); cur != nil && less128([2]uint64{id.High, id.Low}, [2]uint64{cur.High, cur.Low}) {
					return next()
				}
			}
			simrt.Active().Fault("srv-fault:" + fault)
			return &spb.FlushResponse{Result: spb.FlushResponse_OK}, nil
		}
	default:
		// (nack-forward-references: the server itself is built with WithNoRIBForwardReferences;
		// the wrapper only observes whether a forward reference was actually NACKed)
		n.WrapModify = func(m spb.GRIBI_ModifyServer) spb.GRIBI_ModifyServer {
			fm := &faultyModify{GRIBI_ModifyServer: m, fault: fault, srv: s, failIDs: map[uint64]bool{}, ops: map[uint64]*spb.AFTOperation{}, sr: sr}
			sr.modifyStreams = append(sr.modifyStreams, fm)
			return fm
		}
	}
}
