package harness

import (
	"encoding/json"
	"os"
	"strings"
)

// KnownFindings is /verif/known_findings.json: genuine defects of the code
// under test that are recorded rather than repaired. A finding suppresses only
// violations with its exact property, class and signature (prefix); anything
// else is still reported. "fixed" entries suppress nothing. The file is never
// written at run time.
type KnownFindings struct {
	Findings []KnownFinding `json:"findings"`
	Fixed    []string       `json:"fixed"`
}

type KnownFinding struct {
	ID       string `json:"id"`
	Property string `json:"property"`
	Class    string `json:"class"`
	Sig      string `json:"sig_prefix"`
	What     string `json:"what"`
}

func LoadKnown(path string) (*KnownFindings, error) {
	b, err := os.ReadFile(path)
	if err != nil {
		if os.IsNotExist(err) {
			return &KnownFindings{}, nil
		}
		return nil, err
	}
	k := &KnownFindings{}
	if err := json.Unmarshal(b, k); err != nil {
		return nil, err
	}
	return k, nil
}

// Match returns the id of the finding that covers v, or "".
func (k *KnownFindings) Match(v Violation) string {
	for _, f := range k.Findings {
		if f.Property == v.Prop && f.Class == v.Class && strings.HasPrefix(v.Sig, f.Sig) {
			return f.ID
		}
	}
	return ""
}
