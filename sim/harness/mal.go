package harness

// Family "mal" (C12): single-primary histories in which many operations are
// structurally valid protobufs with invalid or absurd content (structured
// mutation of valid messages), plus malformed Get and Flush requests, with a
// negotiated bystander session that must not be disturbed. The model classifies
// every operation itself (Valid / Invalid / Unspecified), so the oracle does
// not depend on which mutation the generator applied.

import (
	"context"
	"fmt"
	"math/rand/v2"
	"strings"
	"time"

	aftpb "github.com/openconfig/gribi/v1/proto/gribi_aft"
	enums "github.com/openconfig/gribi/v1/proto/gribi_aft/enums"
	spb "github.com/openconfig/gribi/v1/proto/service"
	wpb "github.com/openconfig/ygot/proto/ywrapper"

	"verifsim/simrt"
)

func init() {
	families["mal"] = &family{gen: genMal, run: runG1}
}

const nMutations = 30

// mutate turns a valid operation into a malformed one (catalogue of DESIGN.md C12).
func (g *gen) mutate(o *spb.AFTOperation, which int) (out *spb.AFTOperation) {
	defer func() {
		if recover() != nil {
			out = o // the mutation did not apply to this (already mutated) shape
		}
	}()
	bad := "\xff\xfe\xfd"
	switch which {
	case 0: // nil inner payload
		stripPayload(o)
		o.Op = spb.AFTOperation_ADD
	case 1: // typed-nil key message
		switch o.Entry.(type) {
		case *spb.AFTOperation_NextHop:
			o.Entry = &spb.AFTOperation_NextHop{}
		case *spb.AFTOperation_NextHopGroup:
			o.Entry = &spb.AFTOperation_NextHopGroup{}
		case *spb.AFTOperation_Ipv4:
			o.Entry = &spb.AFTOperation_Ipv4{}
		case *spb.AFTOperation_Ipv6:
			o.Entry = &spb.AFTOperation_Ipv6{}
		case *spb.AFTOperation_Mpls:
			o.Entry = &spb.AFTOperation_Mpls{}
		}
	case 2:
		o.Entry = nil
	case 3: // zero key
		switch t := o.Entry.(type) {
		case *spb.AFTOperation_NextHop:
			t.NextHop.Index = 0
		case *spb.AFTOperation_NextHopGroup:
			t.NextHopGroup.Id = 0
		case *spb.AFTOperation_Ipv4:
			t.Ipv4.Prefix = ""
		case *spb.AFTOperation_Ipv6:
			t.Ipv6.Prefix = ""
		case *spb.AFTOperation_Mpls:
			t.Mpls.Label = nil
		}
	case 4: // empty group / zero member / zero group reference
		switch t := o.Entry.(type) {
		case *spb.AFTOperation_NextHopGroup:
			if t.NextHopGroup.NextHopGroup != nil {
				if g.chance(1, 2) || len(t.NextHopGroup.NextHopGroup.NextHop) == 0 {
					t.NextHopGroup.NextHopGroup.NextHop = nil
				} else {
					t.NextHopGroup.NextHopGroup.NextHop[0].Index = 0
				}
			}
		case *spb.AFTOperation_Ipv4:
			if t.Ipv4.Ipv4Entry != nil {
				t.Ipv4.Ipv4Entry.NextHopGroup = []*wpb.UintValue{nil, u(0)}[g.pick(2)]
			}
		case *spb.AFTOperation_Ipv6:
			if t.Ipv6.Ipv6Entry != nil {
				t.Ipv6.Ipv6Entry.NextHopGroup = []*wpb.UintValue{nil, u(0)}[g.pick(2)]
			}
		case *spb.AFTOperation_Mpls:
			if t.Mpls.LabelEntry != nil {
				t.Mpls.LabelEntry.NextHopGroup = []*wpb.UintValue{nil, u(0)}[g.pick(2)]
			}
		default:
			o.GetNextHop().Index = 0
		}
	case 5: // bad prefixes
		p4 := []string{"not-a-prefix", "300.0.0.0/8", "1.0.0.0/33", "1.0.0.0", "1.2.3.4/8", "01.0.0.0/8", "1.0.0.0/8 ", "2001:db8::/32", bad}
		p6 := []string{"2001:db8::/129", "1.0.0.0/8", "zz::/8", "2001:DB8::/32", "2001:db8::1/32", "::ffff:1.2.3.4/128", bad}
		switch t := o.Entry.(type) {
		case *spb.AFTOperation_Ipv4:
			t.Ipv4.Prefix = p4[g.pick(len(p4))]
		case *spb.AFTOperation_Ipv6:
			t.Ipv6.Prefix = p6[g.pick(len(p6))]
		default:
			return g.mutate(g.entry(o.Op, []Kind{KV4, KV6}[g.pick(2)], o.NetworkInstance), 5)
		}
	case 6: // labels
		if m := o.GetMpls(); m != nil {
			m.Label = &aftpb.Afts_LabelEntryKey_LabelUint64{LabelUint64: []uint64{0, 3, 15, 1048576, 1<<32 + 100, 1<<32 + 1048575, 1 << 40, ^uint64(0)}[g.pick(8)]}
		} else {
			return g.mutate(g.entry(o.Op, KMPLS, o.NetworkInstance), 6)
		}
	case 7: // label given as enum
		if m := o.GetMpls(); m != nil {
			m.Label = &aftpb.Afts_LabelEntryKey_LabelOpenconfigmplstypesmplslabelenum{LabelOpenconfigmplstypesmplslabelenum: enums.OpenconfigMplsTypesMplsLabelEnum(g.pick(9))}
		} else {
			return g.mutate(g.entry(o.Op, KMPLS, o.NetworkInstance), 7)
		}
	case 8: // network instance names
		o.NetworkInstance = []string{"", "NO-SUCH-VRF", strings.Repeat("x", 5000), "DEFAULT ", "default", bad}[g.pick(6)]
	case 9: // group network instance
		n := []string{"NO-SUCH-VRF", strings.Repeat("y", 3000), bad, " "}[g.pick(4)]
		switch t := o.Entry.(type) {
		case *spb.AFTOperation_Ipv4:
			if t.Ipv4.Ipv4Entry != nil {
				t.Ipv4.Ipv4Entry.NextHopGroupNetworkInstance = sv(n)
			}
		case *spb.AFTOperation_Ipv6:
			if t.Ipv6.Ipv6Entry != nil {
				t.Ipv6.Ipv6Entry.NextHopGroupNetworkInstance = sv(n)
			}
		case *spb.AFTOperation_Mpls:
			if t.Mpls.LabelEntry != nil {
				t.Mpls.LabelEntry.NextHopGroupNetworkInstance = sv(n)
			}
		default:
			return g.mutate(g.entry(o.Op, KV4, o.NetworkInstance), 9)
		}
	case 10: // operation type
		o.Op = []spb.AFTOperation_Operation{spb.AFTOperation_INVALID, 4, 99, -1}[g.pick(4)]
	case 11, 12: // undefined enum numbers
		nh := o.GetNextHop().GetNextHop()
		if nh == nil {
			return g.mutate(g.entry(spb.AFTOperation_ADD, KNH, o.NetworkInstance), which)
		}
		v := enums.OpenconfigAftTypesEncapsulationHeaderType([]int32{99, -1, 1 << 30, 7}[g.pick(4)])
		switch g.pick(3) {
		case 0:
			nh.EncapsulateHeader = v
		case 1:
			nh.DecapsulateHeader = v
		default:
			nh.EncapHeader = append(nh.EncapHeader, &aftpb.Afts_NextHop_EncapHeaderKey{Index: 1, EncapHeader: &aftpb.Afts_NextHop_EncapHeader{Type: v}})
		}
	case 13: // duplicate list keys
		switch t := o.Entry.(type) {
		case *spb.AFTOperation_NextHopGroup:
			if grp := t.NextHopGroup.NextHopGroup; grp != nil && len(grp.NextHop) > 0 {
				grp.NextHop = append(grp.NextHop, &aftpb.Afts_NextHopGroup_NextHopKey{Index: grp.NextHop[0].Index, NextHop: &aftpb.Afts_NextHopGroup_NextHop{Weight: u(g.mark())}})
			}
		case *spb.AFTOperation_NextHop:
			if nh := t.NextHop.NextHop; nh != nil {
				eh := &aftpb.Afts_NextHop_EncapHeader{Type: hdrTypes[1], Mpls: &aftpb.Afts_NextHop_EncapHeader_Mpls{}}
				nh.EncapHeader = []*aftpb.Afts_NextHop_EncapHeaderKey{{Index: 1, EncapHeader: eh}, {Index: 1, EncapHeader: eh}}
			}
		default:
			return g.mutate(g.entry(spb.AFTOperation_ADD, KNHG, o.NetworkInstance), 13)
		}
	case 14: // invalid UTF-8 / absurd strings in payload
		if nh := o.GetNextHop().GetNextHop(); nh != nil {
			switch g.pick(4) {
			case 0:
				nh.IpAddress = sv(bad)
			case 1:
				nh.MacAddress = sv([]string{bad, "zz:zz", "02:00:00:00:00", ""}[g.pick(4)])
			case 2:
				nh.InterfaceRef = &aftpb.Afts_NextHop_InterfaceRef{Interface: sv(bad)}
			default:
				nh.NetworkInstance = sv(bad)
			}
		} else {
			return g.mutate(g.entry(spb.AFTOperation_ADD, KNH, o.NetworkInstance), 14)
		}
	case 15: // invalid addresses
		if nh := o.GetNextHop().GetNextHop(); nh != nil {
			a := []string{"999.1.1.1", "not-an-ip", "1.2.3", "1.2.3.4/32", "::g", ""}[g.pick(6)]
			if g.chance(1, 2) {
				nh.IpAddress = sv(a)
			} else {
				nh.IpInIp = &aftpb.Afts_NextHop_IpInIp{SrcIp: sv(a), DstIp: sv("192.0.2.2")}
			}
		} else {
			return g.mutate(g.entry(spb.AFTOperation_ADD, KNH, o.NetworkInstance), 15)
		}
	case 16: // boundary integers
		big := ^uint64(0)
		switch t := o.Entry.(type) {
		case *spb.AFTOperation_NextHop:
			if g.chance(1, 2) {
				t.NextHop.Index = big
			} else if t.NextHop.NextHop != nil {
				t.NextHop.NextHop.InterfaceRef = &aftpb.Afts_NextHop_InterfaceRef{Interface: sv("eth0"), Subinterface: u(big)}
				t.NextHop.NextHop.PushedMplsLabelStack = []*aftpb.Afts_NextHop_PushedMplsLabelStackUnion{{PushedMplsLabelStackUint64: big}}
			}
		case *spb.AFTOperation_NextHopGroup:
			if g.chance(1, 2) {
				t.NextHopGroup.Id = big
			} else if grp := t.NextHopGroup.NextHopGroup; grp != nil && len(grp.NextHop) > 0 {
				grp.NextHop[0].NextHop = &aftpb.Afts_NextHopGroup_NextHop{Weight: u(big)}
				grp.BackupNextHopGroup = u(big)
			}
		case *spb.AFTOperation_Ipv4:
			if t.Ipv4.Ipv4Entry != nil {
				t.Ipv4.Ipv4Entry.NextHopGroup = u(big)
			}
		case *spb.AFTOperation_Ipv6:
			if t.Ipv6.Ipv6Entry != nil {
				t.Ipv6.Ipv6Entry.NextHopGroup = u(big)
			}
		case *spb.AFTOperation_Mpls:
			if t.Mpls.LabelEntry != nil {
				t.Mpls.LabelEntry.PoppedMplsLabelStack = []*aftpb.Afts_LabelEntry_PoppedMplsLabelStackUnion{{PoppedMplsLabelStackUint64: big}}
			}
		}
	case 17: // nil wrapper / sub-messages inside the payload
		if nh := o.GetNextHop().GetNextHop(); nh != nil {
			nh.InterfaceRef = &aftpb.Afts_NextHop_InterfaceRef{}
			nh.IpInIp = &aftpb.Afts_NextHop_IpInIp{}
			nh.EncapHeader = []*aftpb.Afts_NextHop_EncapHeaderKey{{Index: 1}, {}}
			nh.PushedMplsLabelStack = []*aftpb.Afts_NextHop_PushedMplsLabelStackUnion{{}}
		} else if grp := o.GetNextHopGroup().GetNextHopGroup(); grp != nil {
			grp.NextHop = append(grp.NextHop, &aftpb.Afts_NextHopGroup_NextHopKey{})
		} else {
			return g.mutate(g.entry(spb.AFTOperation_ADD, KNH, o.NetworkInstance), 17)
		}
	case 18: // udp encap header with out-of-range leaves
		if nh := o.GetNextHop().GetNextHop(); nh != nil {
			nh.EncapHeader = []*aftpb.Afts_NextHop_EncapHeaderKey{{Index: 1, EncapHeader: &aftpb.Afts_NextHop_EncapHeader{Type: hdrTypes[2], UdpV6: &aftpb.Afts_NextHop_EncapHeader_UdpV6{
				Dscp: u(1 << 20), IpTtl: u(1 << 20), SrcUdpPort: u(1 << 40), DstUdpPort: u(1 << 40), SrcIp: sv("1.2.3.4"), DstIp: sv("not-ip")}}}}
		} else {
			return g.mutate(g.entry(spb.AFTOperation_ADD, KNH, o.NetworkInstance), 18)
		}
	case 20, 21: // entry kinds the server does not implement (ethernet MAC, policy forwarding), for every operation type
		if g.chance(1, 2) {
			o.Entry = &spb.AFTOperation_MacEntry{MacEntry: &aftpb.Afts_MacEntryKey{MacAddress: "02:00:00:00:00:01", MacEntry: &aftpb.Afts_MacEntry{}}}
		} else {
			o.Entry = &spb.AFTOperation_PolicyForwardingEntry{PolicyForwardingEntry: &aftpb.Afts_PolicyForwardingEntryKey{Index: 1, PolicyForwardingEntry: &aftpb.Afts_PolicyForwardingEntry{}}}
		}
		o.Op = []spb.AFTOperation_Operation{spb.AFTOperation_ADD, spb.AFTOperation_REPLACE, spb.AFTOperation_DELETE}[g.pick(3)]
		if g.chance(1, 4) {
			// typed-nil payload inside the wrapper
			if g.chance(1, 2) {
				o.Entry = &spb.AFTOperation_MacEntry{}
			} else {
				o.Entry = &spb.AFTOperation_PolicyForwardingEntry{}
			}
		}
	case 19: // zero / absent operation id (at most once per run: ids must stay unique)
		if !g.usedZeroID {
			g.usedZeroID = true
			o.Id = 0
		}
	default:
		// combinations: two mutations at once
		return g.mutate(g.mutate(o, g.pick(19)), g.pick(19))
	}
	return o
}

func genMal(seed uint64, prop string) *Scenario {
	r := rand.New(rand.NewPCG(seed, 0x6d616c))
	cfg := ScenCfg{Default: "DEFAULT", VRFs: []string{"VRF-A"}}
	cfg.FwdRefs = r.IntN(3) != 0
	cfg.FIBAck = r.IntN(2) == 0
	cfg.Window = []int{0, 1, 8}[r.IntN(3)]
	cfg.Policy = "coarse"
	cfg.VRFMode = "opt"
	cfg.FullPayl = r.IntN(2) == 0
	cfg.Bystander = true
	sc := &Scenario{Family: "mal", Seed: seed, Cfg: cfg}
	g := newGen(seed, 0x6d616d, &sc.Cfg)
	nsteps := 2 + g.pick(10)
	for i := 0; i < nsteps; i++ {
		switch g.pick(12) {
		case 0:
			gs := &GetSpec{AFT: int32([]int{0, 7, 8, 99, -1, 1}[g.pick(6)])}
			switch g.pick(4) {
			case 0:
				gs.All = true
			case 1:
				gs.NI = []string{"NO-SUCH-VRF", "\xff\xfe", ""}[g.pick(3)]
				gs.EmptyName = gs.NI == ""
			case 2:
				gs.Unset = true
			default:
				gs.NI = g.ni()
			}
			sc.Steps = append(sc.Steps, Step{T: "badget", Get: gs})
		case 1:
			fs := &FlushSpec{}
			switch g.pick(5) {
			case 0:
			case 1:
				fs.EmptyName = true
			case 2:
				fs.NI = []string{"NO-SUCH-VRF", "\xff\xfe", strings.Repeat("z", 4000)}[g.pick(3)]
			case 3:
				fs.NI = g.ni()
			default:
				fs.All = true
			}
			switch g.pick(4) {
			case 0:
				fs.Override = true
			case 1:
				id := [2]uint64{0, 0}
				fs.ID = &id
			case 2:
				id := genID(r)
				fs.ID = &id
			}
			sc.Steps = append(sc.Steps, Step{T: "flush", Flush: fs})
		default:
			var ops []*spb.AFTOperation
			n := 1 + g.pick(5)
			for j := 0; j < n; j++ {
				if g.chance(1, 2) {
					base := g.randomOp()
					if g.chance(2, 3) {
						base.Op = spb.AFTOperation_ADD
					}
					ops = append(ops, g.mutate(base, g.pick(nMutations)))
				} else if g.chance(1, 3) {
					ops = append(ops, g.chain()...)
				} else {
					ops = append(ops, g.randomOp())
				}
			}
			// operation ids must stay unique per session even when a mutation zeroed one
			sc.Steps = append(sc.Steps, g.batchStep(0, ops))
		}
	}
	return sc
}

// badGet issues a (possibly malformed) Get: it must terminate without crashing
// the server and without changing anything; a well-formed scope must still match the model.
func (e *env) badGet(gs *GetSpec) {
	req := &spb.GetRequest{Aft: spb.AFTType(gs.AFT)}
	switch {
	case gs.Unset:
	case gs.All:
		req.NetworkInstance = &spb.GetRequest_All{All: &spb.Empty{}}
	default:
		req.NetworkInstance = &spb.GetRequest_Name{Name: gs.NI}
	}
	gc := e.net.OpenGet(req)
	n := 0
	var termErr error
	for {
		r, err := gc.RecvTimeout(time.Minute)
		if err != nil {
			termErr = err
			break
		}
		n += len(r.GetEntry()) // (entries, not messages: an empty response returns nothing)
	}
	if termErr != nil && termErr.Error() == "simnet: receive timed out" {
		e.report("C12", "get-hang", "malformed Get never terminated", fmt.Sprintf("%+v: %s", *gs, e.sim.Describe()), false)
	}
	wellFormed := !gs.Unset && (gs.All || e.model.NIs[gs.NI]) && kindOfAFT(spb.AFTType(gs.AFT)) >= -1 && (gs.AFT >= 1 && gs.AFT <= 6)
	if !wellFormed {
		e.probe("malformed Get terminated cleanly")
		if n > 0 && (gs.Unset || (!gs.All && !e.model.NIs[gs.NI])) {
			e.report("C12", "get-bogus-data", "Get of a non-existent scope returned entries", fmt.Sprintf("%+v returned %d entries", *gs, n), false)
		}
	}
	simrt.AwaitQuiescence("badget")
	e.checkpoint(func() { e.afterQuiescenceChecks(nil) })
}

var _ = context.Background
