package harness

import (
	"fmt"
	"testing"
	"testing/synctest"
	"time"

	aftpb "github.com/openconfig/gribi/v1/proto/gribi_aft"
	spb "github.com/openconfig/gribi/v1/proto/service"
	"github.com/openconfig/gribigo/server"
	wpb "github.com/openconfig/ygot/proto/ywrapper"

	"verifsim/simnet"
	"verifsim/simrt"
)

func smokeRun(t *testing.T, seed uint64, pol simrt.Policy) *simrt.Outcome {
	var out *simrt.Outcome
	func() {
		defer func() {
			if r := recover(); r != nil {
				// end-of-bubble deadlock panic for abandoned goroutines
				if out == nil {
					panic(r)
				}
			}
		}()
		synctest.Test(t, func(t *testing.T) {
			tapes := simrt.NewTapes(seed)
			_, out = simrt.Run(simrt.Config{Policy: pol, KeepEvents: 100}, tapes, func() {
				srv, err := server.New(server.WithVRFs([]string{"VRF-A"}))
				if err != nil {
					panic(err)
				}
				n := &simnet.Net{Srv: srv}
				mc := n.OpenModify()
				mc.Send(&spb.ModifyRequest{Params: &spb.SessionParameters{Redundancy: spb.SessionParameters_SINGLE_PRIMARY, Persistence: spb.SessionParameters_PRESERVE}})
				mc.Send(&spb.ModifyRequest{ElectionId: &spb.Uint128{Low: 1}})
				eid := &spb.Uint128{Low: 1}
				mc.Send(&spb.ModifyRequest{Operation: []*spb.AFTOperation{
					{Id: 1, NetworkInstance: "DEFAULT", Op: spb.AFTOperation_ADD, ElectionId: eid, Entry: &spb.AFTOperation_Ipv4{Ipv4: &aftpb.Afts_Ipv4EntryKey{Prefix: "1.0.0.0/8", Ipv4Entry: &aftpb.Afts_Ipv4Entry{NextHopGroup: &wpb.UintValue{Value: 1}}}}},
					{Id: 2, NetworkInstance: "DEFAULT", Op: spb.AFTOperation_ADD, ElectionId: eid, Entry: &spb.AFTOperation_NextHopGroup{NextHopGroup: &aftpb.Afts_NextHopGroupKey{Id: 1, NextHopGroup: &aftpb.Afts_NextHopGroup{NextHop: []*aftpb.Afts_NextHopGroup_NextHopKey{{Index: 1, NextHop: &aftpb.Afts_NextHopGroup_NextHop{Weight: &wpb.UintValue{Value: 1}}}}}}}},
					{Id: 3, NetworkInstance: "DEFAULT", Op: spb.AFTOperation_ADD, ElectionId: eid, Entry: &spb.AFTOperation_NextHop{NextHop: &aftpb.Afts_NextHopKey{Index: 1, NextHop: &aftpb.Afts_NextHop{IpAddress: &wpb.StringValue{Value: "10.0.0.1"}}}}},
				}})
				simrt.AwaitQuiescence("smoke")
				nres := 0
				for {
					r, err, ok := mc.TryRecv()
					if !ok {
						break
					}
					if err != nil {
						panic(err)
					}
					nres += len(r.Result)
					simrt.Active().Log("resp", fmt.Sprint(r))
				}
				if nres != 3 {
					panic(fmt.Sprintf("got %d results", nres))
				}
				gc := n.OpenGet(&spb.GetRequest{NetworkInstance: &spb.GetRequest_All{All: &spb.Empty{}}, Aft: spb.AFTType_ALL})
				cnt := 0
				for {
					r, err := gc.RecvTimeout(time.Minute)
					if err != nil {
						break
					}
					cnt += len(r.Entry)
				}
				if cnt != 3 {
					panic(fmt.Sprintf("got %d entries", cnt))
				}
				mc.CloseSend()
				simrt.AwaitQuiescence("end")
			})
		})
	}()
	return out
}

func TestSmoke(t *testing.T) {
	for _, pol := range []simrt.Policy{simrt.Coarse, simrt.Fine, simrt.PCT} {
		for seed := uint64(1); seed <= 5; seed++ {
			st := time.Now()
			a := smokeRun(t, seed, pol)
			d := time.Since(st)
			b := smokeRun(t, seed, pol)
			t.Logf("pol=%v seed=%d kind=%s steps=%d sw=%d stmts=%d fp=%x/%x il=%x wall=%v", pol, seed, a.Kind, a.Steps, a.Switches, a.Stmts, a.Fingerprint, b.Fingerprint, a.Interleave, d)
			if a.Kind != "ok" {
				t.Fatalf("outcome: %s\n%s", a.Kind, a.Detail)
			}
			if a.Fingerprint != b.Fingerprint {
				t.Fatalf("nondeterministic")
			}
		}
	}
}
