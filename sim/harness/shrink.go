package harness

import (
	"encoding/json"
	"testing"
)

// Shrink minimises a failing run: first the tapes (schedule, map order, select
// order, faults), then the explicit workload (steps, operations, configuration).
// A candidate is kept only if the same violation (property/class/signature)
// recurs. Every candidate is an ordinary replay, so the result replays exactly.
func Shrink(t *testing.T, spec RunSpec, res *RunResult, target Violation, known *KnownFindings, maxRuns int) (RunSpec, *RunResult, int) {
	best := spec
	best.Scenario = cloneScenario(res.Spec.Scenario)
	best.Tapes = res.TapesOut
	best.Replay = true
	bestRes := res
	runs := 0
	try := func(c RunSpec) bool {
		if runs >= maxRuns {
			return false
		}
		runs++
		r := ExecRun(t, c, known)
		for _, v := range r.Violations {
			if v.Key() == target.Key() {
				c.Tapes = r.TapesOut // only what was consumed
				best, bestRes = c, r
				return true
			}
		}
		return false
	}
	// 1. all tapes empty (every choice benign)
	c := best
	c.Tapes = map[string][]uint32{}
	if !try(c) {
		// per tape: drop, then truncate by halves
		for _, name := range []string{"flt", "sel", "map", "net", "sch"} {
			if len(best.Tapes[name]) == 0 {
				continue
			}
			c = best
			c.Tapes = copyTapes(best.Tapes)
			delete(c.Tapes, name)
			if try(c) {
				continue
			}
			for n := len(best.Tapes[name]) / 2; n > 0; n /= 2 {
				c = best
				c.Tapes = copyTapes(best.Tapes)
				c.Tapes[name] = c.Tapes[name][:len(c.Tapes[name])-n]
				if !try(c) {
					continue
				}
			}
			// zero individual entries (bounded)
			for i := 0; i < len(best.Tapes[name]) && i < 64; i++ {
				if best.Tapes[name][i] == 0 {
					continue
				}
				c = best
				c.Tapes = copyTapes(best.Tapes)
				c.Tapes[name][i] = 0
				try(c)
			}
		}
	}
	// 2. workload: remove chunks of steps
	for chunk := len(best.Scenario.Steps) / 2; chunk >= 1; chunk /= 2 {
		for i := 0; i+chunk <= len(best.Scenario.Steps); {
			c = best
			c.Scenario = cloneScenario(best.Scenario)
			c.Scenario.Steps = append(c.Scenario.Steps[:i:i], c.Scenario.Steps[i+chunk:]...)
			if !try(c) {
				i += chunk
			}
		}
	}
	// 3. remove single operations
	for si := 0; si < len(best.Scenario.Steps); si++ {
		for oi := 0; oi < len(best.Scenario.Steps[si].Ops); {
			c = best
			c.Scenario = cloneScenario(best.Scenario)
			ops := c.Scenario.Steps[si].Ops
			c.Scenario.Steps[si].Ops = append(ops[:oi:oi], ops[oi+1:]...)
			if !try(c) {
				oi++
			}
		}
	}
	// 4. simpler configuration
	simpler := []func(*ScenCfg) bool{
		func(c *ScenCfg) bool { ch := c.Policy != "coarse"; c.Policy = "coarse"; return ch },
		func(c *ScenCfg) bool { ch := c.Window != 0; c.Window = 0; return ch },
		func(c *ScenCfg) bool { ch := c.FIBAck; c.FIBAck = false; return ch },
		func(c *ScenCfg) bool { ch := c.GetEvery != 0; c.GetEvery = 0; return ch },
		func(c *ScenCfg) bool {
			ch := c.Hooks == "both"
			if ch {
				c.Hooks = "post"
			}
			return ch
		},
	}
	for _, f := range simpler {
		c = best
		c.Scenario = cloneScenario(best.Scenario)
		if f(&c.Scenario.Cfg) {
			try(c)
		}
	}
	return best, bestRes, runs
}

func copyTapes(t map[string][]uint32) map[string][]uint32 {
	out := map[string][]uint32{}
	for k, v := range t {
		out[k] = append([]uint32(nil), v...)
	}
	return out
}

func cloneScenario(s *Scenario) *Scenario {
	b, _ := json.Marshal(s)
	var c Scenario
	json.Unmarshal(b, &c)
	return &c
}
