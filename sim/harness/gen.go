package harness

// Workload generation. A Scenario is fully explicit (JSON-serialisable), so a
// replay file carries the workload itself and shrinking can delete parts of it.

import (
	"encoding/hex"
	"encoding/json"
	"fmt"
	"math/rand/v2"
	"strings"
	"unicode/utf8"

	aftpb "github.com/openconfig/gribi/v1/proto/gribi_aft"
	enums "github.com/openconfig/gribi/v1/proto/gribi_aft/enums"
	spb "github.com/openconfig/gribi/v1/proto/service"
	wpb "github.com/openconfig/ygot/proto/ywrapper"
	"google.golang.org/protobuf/encoding/protojson"
	"google.golang.org/protobuf/proto"
	"google.golang.org/protobuf/reflect/protoreflect"
)

type ScenCfg struct {
	FwdRefs  bool     `json:"fwd_refs"`
	FIBAck   bool     `json:"fib_ack"`
	Default  string   `json:"default_ni"`
	VRFs     []string `json:"vrfs"`
	Window   int      `json:"window"`
	Policy   string   `json:"policy"`
	PCTDepth int      `json:"pct_depth,omitempty"`
	Hooks    string   `json:"hooks,omitempty"`     // "", "post", "both"
	HookMute bool     `json:"hook_mute,omitempty"` // hooks registered for their locking only (concurrent families): not judged
	VRFMode  string   `json:"vrf_mode,omitempty"`  // "opt" (server.WithVRFs) or "late" (AddNetworkInstance after New)
	FullPayl bool     `json:"full_payloads,omitempty"`
	GetEvery int      `json:"get_every,omitempty"`
	// Bystander: a second, negotiated, idle session is open throughout and must stay undisturbed.
	Bystander bool `json:"bystander,omitempty"`
	// ElecHigh: high 64 bits of the election ids used by the run's sessions.
	ElecHigh uint64 `json:"elec_high,omitempty"`
	// LateSession: the first Modify session is opened only when the first modify step
	// needs it, so earlier steps see a server that has learnt no election id.
	LateSession bool `json:"late_session,omitempty"`
}

type FlushSpec struct {
	NI        string     `json:"ni,omitempty"` // "" with All=false means unset
	All       bool       `json:"all,omitempty"`
	Override  bool       `json:"override,omitempty"`
	EmptyName bool       `json:"empty_name,omitempty"`
	ID        *[2]uint64 `json:"id,omitempty"` // high, low
	// RelID: the id is relative to the highest id the server has learnt at that moment
	// (1 max, 2 max+1, 3 max-1, 4 (high+1, 0), 5 (high-1, 2^64-1)).
	RelID int `json:"rel_id,omitempty"`
}

type GetSpec struct {
	NI        string `json:"ni,omitempty"`
	All       bool   `json:"all,omitempty"`
	AFT       int32  `json:"aft"`
	Unset     bool   `json:"unset,omitempty"`
	EmptyName bool   `json:"empty_name,omitempty"`
}

type Step struct {
	T     string            `json:"t"`
	Sess  int               `json:"sess,omitempty"`
	Ops   []json.RawMessage `json:"ops,omitempty"`
	Flush *FlushSpec        `json:"flush,omitempty"`
	Get   *GetSpec          `json:"get,omitempty"`
	Elec  *[2]uint64        `json:"elec,omitempty"`
	Note  string            `json:"note,omitempty"`
	// generic integer arguments (fault positions etc.)
	A, B int `json:",omitempty"`
}

type Scenario struct {
	Family string  `json:"family"`
	Seed   uint64  `json:"seed"`
	Cfg    ScenCfg `json:"cfg"`
	Steps  []Step  `json:"steps"`
}

// DeepBit marks the seeds of the thorough tier: a third of its runs use larger bounds (longer
// histories, more sessions, more faults per run). It is part of the seed, so a (family, seed) pair
// still names one scenario.
const DeepBit = uint64(1) << 40

func deepSeed(seed uint64) bool { return seed&DeepBit != 0 }

// Strings that are not valid UTF-8 cannot pass through protojson (nor through
// proto.Unmarshal); they are carried as a sentinel plus hex in the scenario file.
const badUTF8Sentinel = "\u00a7BADUTF8:"

func mapStrings(m protoreflect.Message, f func(string) string) {
	m.Range(func(fd protoreflect.FieldDescriptor, v protoreflect.Value) bool {
		switch {
		case fd.IsList():
			l := v.List()
			for i := 0; i < l.Len(); i++ {
				if fd.Kind() == protoreflect.StringKind {
					l.Set(i, protoreflect.ValueOfString(f(l.Get(i).String())))
				} else if fd.Kind() == protoreflect.MessageKind && l.Get(i).Message().IsValid() {
					mapStrings(l.Get(i).Message(), f)
				}
			}
		case fd.IsMap():
		case fd.Kind() == protoreflect.StringKind:
			m.Set(fd, protoreflect.ValueOfString(f(v.String())))
		case fd.Kind() == protoreflect.MessageKind:
			if v.Message().IsValid() {
				mapStrings(v.Message(), f)
			}
		}
		return true
	})
}

func opJSON(op *spb.AFTOperation) json.RawMessage {
	c := proto.Clone(op).(*spb.AFTOperation)
	mapStrings(c.ProtoReflect(), func(s string) string {
		if utf8.ValidString(s) {
			return s
		}
		return badUTF8Sentinel + hex.EncodeToString([]byte(s))
	})
	b, err := protojson.MarshalOptions{}.Marshal(c)
	if err != nil {
		panic(fmt.Sprintf("opJSON: %v", err))
	}
	var v any
	json.Unmarshal(b, &v)
	b, _ = json.Marshal(v) // canonical spacing (protojson output is deliberately unstable)
	return b
}

func opFromJSON(j json.RawMessage) *spb.AFTOperation {
	op := &spb.AFTOperation{}
	if err := protojson.Unmarshal(j, op); err != nil {
		panic(fmt.Sprintf("bad op json %s: %v", j, err))
	}
	mapStrings(op.ProtoReflect(), func(s string) string {
		if strings.HasPrefix(s, badUTF8Sentinel) {
			if b, err := hex.DecodeString(s[len(badUTF8Sentinel):]); err == nil {
				return string(b)
			}
		}
		return s
	})
	return op
}

func (s *Step) ops() []*spb.AFTOperation {
	var out []*spb.AFTOperation
	for _, j := range s.Ops {
		out = append(out, opFromJSON(j))
	}
	return out
}

// ---------------------------------------------------------------------------

type gen struct {
	r      *rand.Rand
	cfg    *ScenCfg
	nis    []string
	nextID uint64
	marker uint64
	// swarm weights
	wAdd, wRepl, wDel int
	wKind             [5]int
	wInvalid          int
	// approximate view of what exists (to bias towards interesting ops)
	have       map[Key]bool
	usedZeroID bool
	// prev: earlier ADD/REPLACE operations, for re-sends of the same or a reduced payload
	prev []*spb.AFTOperation
	// ids that stand in for next-hop index 4 / group id 4 in this run (0: none), see aliasIDs
	nhAlias, nhgAlias uint64
}

var aftTypeNums = []int{1, 2, 3, 4, 5, 6}

var (
	v4Prefixes = []string{"1.0.0.0/8", "10.1.0.0/16", "192.0.2.0/24", "198.51.100.7/32"}
	v6Prefixes = []string{"2001:db8::/32", "2001:db8:1::/48", "::/0", "2001:DB8:2::/48"} // the last one: valid, but not the canonical (lower-case) spelling
	labels     = []uint64{100, 200, 1048575}
)

func newGen(seed uint64, stream uint64, cfg *ScenCfg) *gen {
	g := &gen{r: rand.New(rand.NewPCG(seed, stream)), cfg: cfg, nextID: 1, have: map[Key]bool{}}
	g.nis = append([]string{cfg.Default}, cfg.VRFs...)
	g.wAdd, g.wRepl, g.wDel = 3+g.r.IntN(6), g.r.IntN(4), 1+g.r.IntN(4)
	for i := range g.wKind {
		g.wKind[i] = 1 + g.r.IntN(4)
	}
	g.wInvalid = g.r.IntN(3)
	return g
}

func (g *gen) pick(n int) int           { return g.r.IntN(n) }
func (g *gen) chance(num, den int) bool { return g.r.IntN(den) < num }
func (g *gen) ni() string               { return g.nis[g.pick(len(g.nis))] }

func (g *gen) id() uint64 {
	id := g.nextID
	g.nextID++
	return id
}

func (g *gen) mark() uint64 {
	g.marker++
	return g.marker
}

func u(v uint64) *wpb.UintValue    { return &wpb.UintValue{Value: v} }
func sv(v string) *wpb.StringValue { return &wpb.StringValue{Value: v} }

var hdrTypes = []enums.OpenconfigAftTypesEncapsulationHeaderType{
	enums.OpenconfigAftTypesEncapsulationHeaderType_OPENCONFIGAFTTYPESENCAPSULATIONHEADERTYPE_IPV4,
	enums.OpenconfigAftTypesEncapsulationHeaderType_OPENCONFIGAFTTYPESENCAPSULATIONHEADERTYPE_MPLS,
	enums.OpenconfigAftTypesEncapsulationHeaderType_OPENCONFIGAFTTYPESENCAPSULATIONHEADERTYPE_UDPV6,
}

// nhPayload builds a next-hop payload from the fields the fluent builders can set.
func (g *gen) nhPayload(index uint64) *aftpb.Afts_NextHopKey {
	mk := g.mark()
	nh := &aftpb.Afts_NextHop{}
	if g.chance(5, 6) {
		nh.IpAddress = sv(fmt.Sprintf("10.%d.%d.%d", (mk>>16)&0xff, (mk>>8)&0xff, mk&0xff))
	}
	if g.chance(1, 3) {
		nh.MacAddress = sv(fmt.Sprintf("02:00:00:%02x:%02x:%02x", (mk>>16)&0xff, (mk>>8)&0xff, mk&0xff))
	}
	if g.chance(1, 4) {
		nh.InterfaceRef = &aftpb.Afts_NextHop_InterfaceRef{Interface: sv(fmt.Sprintf("eth%d", g.pick(4)))}
		if g.chance(1, 2) {
			nh.InterfaceRef.Subinterface = u(uint64(g.pick(3)))
		}
	}
	if g.chance(1, 5) {
		nh.IpInIp = &aftpb.Afts_NextHop_IpInIp{SrcIp: sv("192.0.2.1"), DstIp: sv(fmt.Sprintf("192.0.2.%d", 2+g.pick(200)))}
	}
	if g.chance(1, 5) {
		nh.NetworkInstance = sv(g.ni())
	}
	if g.chance(1, 5) {
		n := 1 + g.pick(3)
		for i := 0; i < n; i++ {
			nh.PushedMplsLabelStack = append(nh.PushedMplsLabelStack, &aftpb.Afts_NextHop_PushedMplsLabelStackUnion{PushedMplsLabelStackUint64: uint64(16 + g.pick(1000))})
		}
	}
	if g.chance(1, 6) {
		nh.EncapsulateHeader = hdrTypes[g.pick(3)]
	}
	if g.chance(1, 6) {
		nh.DecapsulateHeader = hdrTypes[g.pick(3)]
	}
	if g.cfg.FullPayl {
		if g.chance(1, 4) {
			nh.PopTopLabel = &wpb.BoolValue{Value: true}
		}
		if g.chance(1, 4) {
			n := 1 + g.pick(2)
			for i := 1; i <= n; i++ {
				eh := &aftpb.Afts_NextHop_EncapHeader{}
				if g.chance(1, 2) {
					eh.Type = hdrTypes[1]
					eh.Mpls = &aftpb.Afts_NextHop_EncapHeader_Mpls{}
					for j := 0; j <= g.pick(2); j++ {
						eh.Mpls.MplsLabelStack = append(eh.Mpls.MplsLabelStack, &aftpb.Afts_NextHop_EncapHeader_Mpls_MplsLabelStackUnion{MplsLabelStackUint64: uint64(100 + g.pick(100))})
					}
				} else {
					eh.Type = hdrTypes[2]
					eh.UdpV6 = &aftpb.Afts_NextHop_EncapHeader_UdpV6{
						SrcIp: sv("2001:db8::1"), DstIp: sv(fmt.Sprintf("2001:db8::%x", 2+g.pick(200))),
						SrcUdpPort: u(uint64(1024 + g.pick(100))), DstUdpPort: u(6635),
					}
					if g.chance(1, 2) {
						eh.UdpV6.Dscp = u(uint64(g.pick(64)))
					}
					if g.chance(1, 2) {
						eh.UdpV6.IpTtl = u(uint64(1 + g.pick(255)))
					}
				}
				nh.EncapHeader = append(nh.EncapHeader, &aftpb.Afts_NextHop_EncapHeaderKey{Index: uint64(i), EncapHeader: eh})
			}
		}
	}
	return &aftpb.Afts_NextHopKey{Index: index, NextHop: nh}
}

func (g *gen) nhgPayload(id uint64) *aftpb.Afts_NextHopGroupKey {
	n := 1 + g.pick(3)
	idx := g.r.Perm(4)[:n]
	grp := &aftpb.Afts_NextHopGroup{}
	for _, i := range idx {
		grp.NextHop = append(grp.NextHop, &aftpb.Afts_NextHopGroup_NextHopKey{Index: uint64(i + 1), NextHop: &aftpb.Afts_NextHopGroup_NextHop{Weight: u(g.mark())}})
	}
	if g.chance(1, 4) {
		grp.BackupNextHopGroup = u([]uint64{1, 2, 7, 8}[g.pick(4)])
	}
	return &aftpb.Afts_NextHopGroupKey{Id: id, NextHopGroup: grp}
}

// meta returns entry metadata carrying a unique marker - or nothing: every
// field must also be exercised absent.
func (g *gen) meta() *wpb.BytesValue {
	if g.chance(2, 5) {
		return nil
	}
	mk := g.mark()
	return &wpb.BytesValue{Value: []byte{byte(mk >> 24), byte(mk >> 16), byte(mk >> 8), byte(mk)}}
}

func (g *gen) nhgRef(own string) (*wpb.UintValue, *wpb.StringValue) {
	id := u(uint64(1 + g.pick(4)))
	switch g.pick(4) {
	case 0:
		return id, sv(g.ni())
	case 1:
		return id, sv(own)
	}
	return id, nil
}

// entry builds a valid operation of the given kind on a random key.
func (g *gen) entry(op spb.AFTOperation_Operation, kind Kind, ni string) *spb.AFTOperation {
	o := &spb.AFTOperation{Id: g.id(), NetworkInstance: ni, Op: op}
	switch kind {
	case KNH:
		o.Entry = &spb.AFTOperation_NextHop{NextHop: g.nhPayload(uint64(1 + g.pick(4)))}
	case KNHG:
		o.Entry = &spb.AFTOperation_NextHopGroup{NextHopGroup: g.nhgPayload(uint64(1 + g.pick(4)))}
	case KV4:
		id, nin := g.nhgRef(ni)
		o.Entry = &spb.AFTOperation_Ipv4{Ipv4: &aftpb.Afts_Ipv4EntryKey{Prefix: v4Prefixes[g.pick(len(v4Prefixes))],
			Ipv4Entry: &aftpb.Afts_Ipv4Entry{NextHopGroup: id, NextHopGroupNetworkInstance: nin, EntryMetadata: g.meta()}}}
	case KV6:
		id, nin := g.nhgRef(ni)
		o.Entry = &spb.AFTOperation_Ipv6{Ipv6: &aftpb.Afts_Ipv6EntryKey{Prefix: v6Prefixes[g.pick(len(v6Prefixes))],
			Ipv6Entry: &aftpb.Afts_Ipv6Entry{NextHopGroup: id, NextHopGroupNetworkInstance: nin, EntryMetadata: g.meta()}}}
	case KMPLS:
		id, nin := g.nhgRef(ni)
		le := &aftpb.Afts_LabelEntry{NextHopGroup: id, NextHopGroupNetworkInstance: nin, EntryMetadata: g.meta()}
		if g.chance(1, 3) {
			for i := 0; i <= g.pick(2); i++ {
				le.PoppedMplsLabelStack = append(le.PoppedMplsLabelStack, &aftpb.Afts_LabelEntry_PoppedMplsLabelStackUnion{PoppedMplsLabelStackUint64: uint64(100 + g.pick(50))})
			}
		}
		o.Entry = &spb.AFTOperation_Mpls{Mpls: &aftpb.Afts_LabelEntryKey{Label: &aftpb.Afts_LabelEntryKey_LabelUint64{LabelUint64: labels[g.pick(len(labels))]}, LabelEntry: le}}
	}
	if op == spb.AFTOperation_DELETE && g.chance(1, 2) {
		stripPayload(o)
	}
	if op == spb.AFTOperation_DELETE && kind == KMPLS && g.chance(1, 4) {
		// a label that aliases an installable one in its low 32 bits
		o.GetMpls().Label = &aftpb.Afts_LabelEntryKey_LabelUint64{LabelUint64: 1<<32 + o.GetMpls().GetLabelUint64()}
	}
	return o
}

// stripPayload leaves only the key (a DELETE's payload is ignored).
func stripPayload(o *spb.AFTOperation) {
	switch t := o.Entry.(type) {
	case *spb.AFTOperation_NextHop:
		t.NextHop.NextHop = nil
	case *spb.AFTOperation_NextHopGroup:
		t.NextHopGroup.NextHopGroup = nil
	case *spb.AFTOperation_Ipv4:
		t.Ipv4.Ipv4Entry = nil
	case *spb.AFTOperation_Ipv6:
		t.Ipv6.Ipv6Entry = nil
	case *spb.AFTOperation_Mpls:
		t.Mpls.LabelEntry = nil
	}
}

func (g *gen) weighted(ws ...int) int {
	tot := 0
	for _, w := range ws {
		tot += w
	}
	x := g.pick(tot)
	for i, w := range ws {
		if x < w {
			return i
		}
		x -= w
	}
	return 0
}

func (g *gen) randomOp() *spb.AFTOperation {
	if len(g.prev) > 0 && g.chance(1, 7) {
		// re-send an earlier ADD/REPLACE: identical, or with some optional leaves removed
		// (a client refreshing its state; the new payload is a subset of the installed one)
		o := proto.Clone(g.prev[g.pick(len(g.prev))]).(*spb.AFTOperation)
		o.Id = g.id()
		if g.chance(2, 3) {
			g.dropLeaves(o)
		}
		if g.chance(1, 4) {
			o.Op = spb.AFTOperation_REPLACE
		}
		return o
	}
	op := []spb.AFTOperation_Operation{spb.AFTOperation_ADD, spb.AFTOperation_REPLACE, spb.AFTOperation_DELETE}[g.weighted(g.wAdd, g.wRepl, g.wDel)]
	kind := Kind(g.weighted(g.wKind[:]...))
	o := g.entry(op, kind, g.ni())
	if op != spb.AFTOperation_DELETE && len(g.prev) < 64 {
		g.prev = append(g.prev, proto.Clone(o).(*spb.AFTOperation))
	}
	return o
}

// dropLeaves removes a random selection of optional payload leaves.
func (g *gen) dropLeaves(o *spb.AFTOperation) {
	switch t := o.Entry.(type) {
	case *spb.AFTOperation_NextHop:
		if nh := t.NextHop.NextHop; nh != nil {
			if g.chance(1, 2) {
				nh.MacAddress = nil
			}
			if g.chance(1, 2) {
				nh.InterfaceRef = nil
			}
			if g.chance(1, 2) {
				nh.IpInIp = nil
			}
			if g.chance(1, 2) {
				nh.PushedMplsLabelStack = nil
			}
			if g.chance(1, 2) {
				nh.EncapsulateHeader, nh.DecapsulateHeader = 0, 0
			}
			if g.chance(1, 2) {
				nh.NetworkInstance = nil
			}
			if g.chance(1, 3) {
				nh.PopTopLabel, nh.EncapHeader = nil, nil
			}
		}
	case *spb.AFTOperation_NextHopGroup:
		if grp := t.NextHopGroup.NextHopGroup; grp != nil {
			grp.BackupNextHopGroup = nil
			if len(grp.NextHop) > 1 && g.chance(1, 2) {
				grp.NextHop = grp.NextHop[:len(grp.NextHop)-1]
			}
		}
	case *spb.AFTOperation_Ipv4:
		if t.Ipv4.Ipv4Entry != nil {
			t.Ipv4.Ipv4Entry.EntryMetadata = nil
		}
	case *spb.AFTOperation_Ipv6:
		if t.Ipv6.Ipv6Entry != nil {
			t.Ipv6.Ipv6Entry.EntryMetadata = nil
		}
	case *spb.AFTOperation_Mpls:
		if t.Mpls.LabelEntry != nil {
			t.Mpls.LabelEntry.EntryMetadata = nil
			t.Mpls.LabelEntry.PoppedMplsLabelStack = nil
		}
	}
}

// chain emits the operations of one dependency chain NH <- NHG <- entry in a random order.
func (g *gen) chain() []*spb.AFTOperation {
	ni := g.ni()
	grpNI := ni
	var nin *wpb.StringValue
	if g.chance(1, 3) {
		grpNI = g.ni()
		nin = sv(grpNI)
	}
	nhgID := uint64(1 + g.pick(4))
	grp := g.nhgPayload(nhgID)
	var ops []*spb.AFTOperation
	for _, nh := range grp.NextHopGroup.NextHop {
		ops = append(ops, &spb.AFTOperation{Id: g.id(), NetworkInstance: grpNI, Op: spb.AFTOperation_ADD, Entry: &spb.AFTOperation_NextHop{NextHop: g.nhPayload(nh.Index)}})
	}
	ops = append(ops, &spb.AFTOperation{Id: g.id(), NetworkInstance: grpNI, Op: spb.AFTOperation_ADD, Entry: &spb.AFTOperation_NextHopGroup{NextHopGroup: grp}})
	top := g.entry(spb.AFTOperation_ADD, []Kind{KV4, KV6, KMPLS}[g.pick(3)], ni)
	switch t := top.Entry.(type) {
	case *spb.AFTOperation_Ipv4:
		t.Ipv4.Ipv4Entry.NextHopGroup, t.Ipv4.Ipv4Entry.NextHopGroupNetworkInstance = u(nhgID), nin
	case *spb.AFTOperation_Ipv6:
		t.Ipv6.Ipv6Entry.NextHopGroup, t.Ipv6.Ipv6Entry.NextHopGroupNetworkInstance = u(nhgID), nin
	case *spb.AFTOperation_Mpls:
		t.Mpls.LabelEntry.NextHopGroup, t.Mpls.LabelEntry.NextHopGroupNetworkInstance = u(nhgID), nin
	}
	if g.chance(1, 4) {
		top.Op = spb.AFTOperation_REPLACE
	}
	ops = append(ops, top)
	if g.chance(1, 4) {
		ops = ops[:len(ops)-1-g.pick(len(ops)-1)] // a dependency never arrives / the entry never arrives
	}
	g.r.Shuffle(len(ops), func(i, j int) { ops[i], ops[j] = ops[j], ops[i] })
	return ops
}

// shape emits one of the multi-step dependency shapes the properties single out
// (held REPLACE whose target is deleted, retargeting replaces across instances,
// group replaced by one with an overlapping next-hop set, delete and re-add of
// dependencies in reverse order). Operations come back grouped into requests.
// bulk: one table of one instance grows past every plausible batching / paging boundary
// (33..300 entries), in requests of 1..8, 32, 64 or all operations; then some are deleted again.
func (g *gen) bulk() [][]*spb.AFTOperation {
	ni := g.ni()
	n := []int{33, 40, 64, 65, 66, 100, 128, 129, 130, 200, 257, 300}[g.pick(12)]
	kind := []Kind{KNH, KNH, KNHG, KV4, KV4, KV6, KMPLS}[g.pick(7)]
	var ops []*spb.AFTOperation
	add := func(e *spb.AFTOperation) {
		e.Id, e.NetworkInstance, e.Op = g.id(), ni, spb.AFTOperation_ADD
		ops = append(ops, e)
	}
	mkNH := func(i uint64) {
		add(&spb.AFTOperation{Entry: &spb.AFTOperation_NextHop{NextHop: &aftpb.Afts_NextHopKey{Index: i, NextHop: &aftpb.Afts_NextHop{IpAddress: sv(fmt.Sprintf("203.0.%d.%d", (i>>8)&255, i&255))}}}})
	}
	mkNHG := func(id uint64, nh uint64) {
		add(&spb.AFTOperation{Entry: &spb.AFTOperation_NextHopGroup{NextHopGroup: &aftpb.Afts_NextHopGroupKey{Id: id, NextHopGroup: &aftpb.Afts_NextHopGroup{
			NextHop: []*aftpb.Afts_NextHopGroup_NextHopKey{{Index: nh, NextHop: &aftpb.Afts_NextHopGroup_NextHop{Weight: u(g.mark())}}}}}}})
	}
	switch kind {
	case KNH:
		for i := 0; i < n; i++ {
			mkNH(uint64(100 + i))
		}
	case KNHG:
		mkNH(1)
		for i := 0; i < n; i++ {
			mkNHG(uint64(100+i), 1)
		}
	default:
		mkNH(1)
		mkNHG(1, 1)
		for i := 0; i < n; i++ {
			switch kind {
			case KV4:
				add(&spb.AFTOperation{Entry: &spb.AFTOperation_Ipv4{Ipv4: &aftpb.Afts_Ipv4EntryKey{Prefix: fmt.Sprintf("10.%d.%d.0/24", i>>8, i&255),
					Ipv4Entry: &aftpb.Afts_Ipv4Entry{NextHopGroup: u(1), EntryMetadata: g.meta()}}}})
			case KV6:
				add(&spb.AFTOperation{Entry: &spb.AFTOperation_Ipv6{Ipv6: &aftpb.Afts_Ipv6EntryKey{Prefix: fmt.Sprintf("2001:db8:%x::/48", i+1),
					Ipv6Entry: &aftpb.Afts_Ipv6Entry{NextHopGroup: u(1), EntryMetadata: g.meta()}}}})
			default:
				add(&spb.AFTOperation{Entry: &spb.AFTOperation_Mpls{Mpls: &aftpb.Afts_LabelEntryKey{Label: &aftpb.Afts_LabelEntryKey_LabelUint64{LabelUint64: uint64(5000 + i)},
					LabelEntry: &aftpb.Afts_LabelEntry{NextHopGroup: u(1), EntryMetadata: g.meta()}}}})
			}
		}
	}
	if g.chance(1, 3) {
		g.r.Shuffle(len(ops), func(i, j int) { ops[i], ops[j] = ops[j], ops[i] }) // forward references en masse
	}
	// a few deletes of what was just installed (payload-free)
	nd := g.pick(4)
	for i := 0; i < nd; i++ {
		victim := proto.Clone(ops[g.pick(len(ops))]).(*spb.AFTOperation)
		victim.Id, victim.Op = g.id(), spb.AFTOperation_DELETE
		stripPayload(victim)
		ops = append(ops, victim)
	}
	var reqs [][]*spb.AFTOperation
	per := []int{0, 0, 32, 64, len(ops)}[g.pick(5)]
	for len(ops) > 0 {
		k := per
		if k == 0 {
			k = 1 + g.pick(8)
		}
		if k > len(ops) {
			k = len(ops)
		}
		reqs = append(reqs, ops[:k])
		ops = ops[k:]
	}
	return reqs
}

func (g *gen) shape() [][]*spb.AFTOperation {
	ni, other := g.ni(), g.ni()
	nhA, nhB, nhC := uint64(1+g.pick(4)), uint64(1+g.pick(4)), uint64(1+g.pick(4))
	gA, gB := uint64(1+g.pick(4)), uint64(1+g.pick(4))
	add := func(ni string, e *spb.AFTOperation) *spb.AFTOperation { e.Id, e.NetworkInstance = g.id(), ni; return e }
	nh := func(ni string, i uint64) *spb.AFTOperation {
		return add(ni, &spb.AFTOperation{Op: spb.AFTOperation_ADD, Entry: &spb.AFTOperation_NextHop{NextHop: g.nhPayload(i)}})
	}
	grp := func(ni string, id uint64, op spb.AFTOperation_Operation, nhs ...uint64) *spb.AFTOperation {
		gr := &aftpb.Afts_NextHopGroup{}
		for _, n := range nhs {
			gr.NextHop = append(gr.NextHop, &aftpb.Afts_NextHopGroup_NextHopKey{Index: n, NextHop: &aftpb.Afts_NextHopGroup_NextHop{Weight: u(g.mark())}})
		}
		return add(ni, &spb.AFTOperation{Op: op, Entry: &spb.AFTOperation_NextHopGroup{NextHopGroup: &aftpb.Afts_NextHopGroupKey{Id: id, NextHopGroup: gr}}})
	}
	kind := []Kind{KV4, KV6, KMPLS}[g.pick(3)]
	top := func(ni string, op spb.AFTOperation_Operation, nhg uint64, nhgNI *wpb.StringValue, like *spb.AFTOperation) *spb.AFTOperation {
		e := g.entry(op, kind, ni)
		if like != nil { // same key as an earlier entry
			switch t := e.Entry.(type) {
			case *spb.AFTOperation_Ipv4:
				t.Ipv4.Prefix = like.GetIpv4().GetPrefix()
			case *spb.AFTOperation_Ipv6:
				t.Ipv6.Prefix = like.GetIpv6().GetPrefix()
			case *spb.AFTOperation_Mpls:
				t.Mpls.Label = like.GetMpls().GetLabel()
			}
		}
		switch t := e.Entry.(type) {
		case *spb.AFTOperation_Ipv4:
			if t.Ipv4.Ipv4Entry != nil {
				t.Ipv4.Ipv4Entry.NextHopGroup, t.Ipv4.Ipv4Entry.NextHopGroupNetworkInstance = u(nhg), nhgNI
			}
		case *spb.AFTOperation_Ipv6:
			if t.Ipv6.Ipv6Entry != nil {
				t.Ipv6.Ipv6Entry.NextHopGroup, t.Ipv6.Ipv6Entry.NextHopGroupNetworkInstance = u(nhg), nhgNI
			}
		case *spb.AFTOperation_Mpls:
			if t.Mpls.LabelEntry != nil {
				t.Mpls.LabelEntry.NextHopGroup, t.Mpls.LabelEntry.NextHopGroupNetworkInstance = u(nhg), nhgNI
			}
		}
		return e
	}
	del := func(e *spb.AFTOperation) *spb.AFTOperation {
		d := proto.Clone(e).(*spb.AFTOperation)
		d.Id, d.Op = g.id(), spb.AFTOperation_DELETE
		if g.chance(1, 2) {
			stripPayload(d)
		}
		return d
	}
	var out [][]*spb.AFTOperation
	if g.chance(1, 6) {
		// the SAME key held twice (different groups, both of them held on one missing next-hop), the four operations in
		// any order, in one request or several; the next-hop then releases everything in ONE cascade. Whatever order the
		// implementation installs and acknowledges them in, the entry must end up as the operation acknowledged last says.
		e1 := top(ni, spb.AFTOperation_ADD, gA, nil, nil)
		gOther := gA%4 + 1
		e2 := top(ni, spb.AFTOperation_ADD, gOther, nil, e1)
		ops := []*spb.AFTOperation{e1, grp(ni, gOther, spb.AFTOperation_ADD, nhA), e2, grp(ni, gA, spb.AFTOperation_ADD, nhA)}
		if g.chance(1, 2) {
			g.r.Shuffle(len(ops), func(i, j int) { ops[i], ops[j] = ops[j], ops[i] })
		}
		if g.chance(1, 3) {
			// ids in the opposite order to the arrival order
			for i, j := 0, len(ops)-1; i < j; i, j = i+1, j-1 {
				ops[i].Id, ops[j].Id = ops[j].Id, ops[i].Id
			}
		}
		if g.chance(1, 2) {
			out = append(out, ops)
		} else {
			for _, o := range ops {
				out = append(out, []*spb.AFTOperation{o})
			}
		}
		if g.chance(1, 4) {
			out = append(out, []*spb.AFTOperation{del(e1)})
		}
		out = append(out, []*spb.AFTOperation{nh(ni, nhA)})
		return out
	}
	switch g.pick(5) {
	case 4: // a large cascade: many entries of all kinds and instances held on ONE missing group, released at once
		seen := map[string]bool{}
		var held []*spb.AFTOperation
		for tries := 0; len(held) < 6+g.pick(9) && tries < 60; tries++ {
			eni := g.ni()
			kind = []Kind{KV4, KV6, KMPLS}[g.pick(3)]
			var ref *wpb.StringValue
			if eni != ni || g.chance(1, 3) {
				ref = sv(ni)
			}
			e := top(eni, spb.AFTOperation_ADD, gA, ref, nil)
			_, en, _ := (&Model{NIs: map[string]bool{eni: true, ni: true}}).Analyse(e)
			if en == nil || seen[en.Key.String()] {
				continue
			}
			seen[en.Key.String()] = true
			held = append(held, e)
		}
		// in one request, or trickled in over several
		if g.chance(1, 2) {
			out = append(out, held)
		} else {
			for len(held) > 0 {
				n := 1 + g.pick(len(held))
				out = append(out, held[:n])
				held = held[n:]
			}
		}
		if g.chance(1, 2) {
			out = append(out, []*spb.AFTOperation{nh(ni, nhA)}, []*spb.AFTOperation{grp(ni, gA, spb.AFTOperation_ADD, nhA)})
		} else {
			out = append(out, []*spb.AFTOperation{grp(ni, gA, spb.AFTOperation_ADD, nhA)}, []*spb.AFTOperation{nh(ni, nhA)})
		}
	case 0: // held REPLACE, its target deleted, then the dependency arrives
		e1 := top(ni, spb.AFTOperation_ADD, gA, nil, nil)
		out = append(out, []*spb.AFTOperation{nh(ni, nhA), grp(ni, gA, spb.AFTOperation_ADD, nhA), e1})
		gMissing := gA%4 + 1
		if g.chance(1, 2) {
			gMissing = 5 + uint64(g.pick(2)) // outside the everyday key space: certainly not installed yet
		}
		// further entries (other keys, possibly other instances) held on the same missing group: the doomed
		// REPLACE fails somewhere in the middle of the walk that releases them
		var fellows []*spb.AFTOperation
		kind0 := kind
		if g.chance(2, 3) {
			seen := map[string]bool{}
			if _, en, _ := (&Model{NIs: map[string]bool{ni: true}}).Analyse(e1); en != nil {
				seen[en.Key.String()] = true
			}
			for tries := 0; len(fellows) < 2+g.pick(5) && tries < 40; tries++ {
				eni := g.ni()
				kind = []Kind{KV4, KV6, KMPLS}[g.pick(3)]
				var ref *wpb.StringValue
				if eni != ni || g.chance(1, 3) {
					ref = sv(ni)
				}
				f := top(eni, spb.AFTOperation_ADD, gMissing, ref, nil)
				_, en, _ := (&Model{NIs: map[string]bool{eni: true, ni: true}}).Analyse(f)
				if en == nil || seen[en.Key.String()] {
					continue
				}
				seen[en.Key.String()] = true
				fellows = append(fellows, f)
			}
		}
		kind = kind0
		cutAt := 0
		if len(fellows) > 0 {
			cutAt = g.pick(len(fellows) + 1)
			if cutAt > 0 {
				out = append(out, fellows[:cutAt])
			}
		}
		out = append(out, []*spb.AFTOperation{top(ni, spb.AFTOperation_REPLACE, gMissing, nil, e1)})
		if cutAt < len(fellows) {
			out = append(out, fellows[cutAt:])
		}
		out = append(out, []*spb.AFTOperation{del(e1)})
		if g.chance(1, 2) {
			// the missing group is the FIRST install after the delete (its next-hop is there already): the walk
			// that releases the fellows is also the one in which the doomed REPLACE is retried and fails
			out = append(out, []*spb.AFTOperation{grp(ni, gMissing, spb.AFTOperation_ADD, nhA)})
		} else {
			out = append(out, []*spb.AFTOperation{nh(ni, nhB), grp(ni, gMissing, spb.AFTOperation_ADD, nhB)})
		}
		if g.chance(1, 2) {
			out = append(out, []*spb.AFTOperation{top(ni, spb.AFTOperation_ADD, gMissing, nil, e1)})
		}
	case 1: // retarget a reference to a group in another instance (named / unset), then try the deletes
		e1 := top(ni, spb.AFTOperation_ADD, gA, nil, nil)
		out = append(out, []*spb.AFTOperation{nh(ni, nhA), grp(ni, gA, spb.AFTOperation_ADD, nhA), e1})
		out = append(out, []*spb.AFTOperation{nh(other, nhB), grp(other, gB, spb.AFTOperation_ADD, nhB)})
		op := []spb.AFTOperation_Operation{spb.AFTOperation_ADD, spb.AFTOperation_REPLACE}[g.pick(2)]
		out = append(out, []*spb.AFTOperation{top(ni, op, gB, sv(other), e1)})
		out = append(out, []*spb.AFTOperation{
			add(ni, &spb.AFTOperation{Op: spb.AFTOperation_DELETE, Entry: &spb.AFTOperation_NextHopGroup{NextHopGroup: &aftpb.Afts_NextHopGroupKey{Id: gA}}}),
			add(other, &spb.AFTOperation{Op: spb.AFTOperation_DELETE, Entry: &spb.AFTOperation_NextHopGroup{NextHopGroup: &aftpb.Afts_NextHopGroupKey{Id: gB}}}),
		})
		if g.chance(1, 2) { // and back, with the instance left unset
			out = append(out, []*spb.AFTOperation{grp(ni, gA, spb.AFTOperation_ADD, nhA), top(ni, op, gA, nil, e1)})
		}
	case 2: // group replaced by one with an overlapping next-hop set, then delete every next-hop
		out = append(out, []*spb.AFTOperation{nh(ni, nhA), nh(ni, nhB), nh(ni, nhC), grp(ni, gA, spb.AFTOperation_ADD, nhA, nhB)})
		op := []spb.AFTOperation_Operation{spb.AFTOperation_ADD, spb.AFTOperation_REPLACE}[g.pick(2)]
		out = append(out, []*spb.AFTOperation{grp(ni, gA, op, nhB, nhC)})
		var dels []*spb.AFTOperation
		for _, n := range []uint64{nhA, nhB, nhC} {
			dels = append(dels, add(ni, &spb.AFTOperation{Op: spb.AFTOperation_DELETE, Entry: &spb.AFTOperation_NextHop{NextHop: &aftpb.Afts_NextHopKey{Index: n}}}))
		}
		out = append(out, dels)
	default: // delete dependencies bottom-up (refused), then top-down, then re-add in reverse order
		e1 := top(ni, spb.AFTOperation_ADD, gA, nil, nil)
		out = append(out, []*spb.AFTOperation{nh(ni, nhA), grp(ni, gA, spb.AFTOperation_ADD, nhA), e1})
		dn := add(ni, &spb.AFTOperation{Op: spb.AFTOperation_DELETE, Entry: &spb.AFTOperation_NextHop{NextHop: &aftpb.Afts_NextHopKey{Index: nhA}}})
		dg := add(ni, &spb.AFTOperation{Op: spb.AFTOperation_DELETE, Entry: &spb.AFTOperation_NextHopGroup{NextHopGroup: &aftpb.Afts_NextHopGroupKey{Id: gA}}})
		out = append(out, []*spb.AFTOperation{dn, dg})
		dn2, dg2 := proto.Clone(dn).(*spb.AFTOperation), proto.Clone(dg).(*spb.AFTOperation)
		dn2.Id, dg2.Id = g.id(), g.id()
		out = append(out, []*spb.AFTOperation{del(e1), dg2, dn2})
		out = append(out, []*spb.AFTOperation{top(ni, spb.AFTOperation_ADD, gA, nil, e1), grp(ni, gA, spb.AFTOperation_ADD, nhA), nh(ni, nhA)})
	}
	return out
}

// invalidOp emits an operation the model classifies as Invalid (must be FAILED, no trace).
func (g *gen) invalidOp() *spb.AFTOperation {
	ni := g.ni()
	switch g.pick(12) {
	case 9:
		// empty network instance name
		return g.entry(spb.AFTOperation_ADD, Kind(g.pick(5)), "")
	case 10:
		// no entry at all
		return &spb.AFTOperation{Id: g.id(), NetworkInstance: ni, Op: []spb.AFTOperation_Operation{spb.AFTOperation_ADD, spb.AFTOperation_DELETE}[g.pick(2)]}
	case 11:
		// unset / undefined operation type
		o := g.entry(spb.AFTOperation_ADD, Kind(g.pick(5)), ni)
		o.Op = []spb.AFTOperation_Operation{spb.AFTOperation_INVALID, spb.AFTOperation_Operation(7)}[g.pick(2)]
		return o
	case 0:
		o := g.entry(spb.AFTOperation_ADD, KNH, ni)
		o.GetNextHop().Index = 0
		return o
	case 1:
		o := g.entry(spb.AFTOperation_ADD, KNHG, ni)
		o.GetNextHopGroup().NextHopGroup.NextHop = nil
		return o
	case 2:
		o := g.entry(spb.AFTOperation_ADD, KNHG, ni)
		o.GetNextHopGroup().Id = 0
		return o
	case 3:
		return g.entry(spb.AFTOperation_ADD, Kind(g.pick(5)), "NO-SUCH-VRF")
	case 4:
		o := g.entry(spb.AFTOperation_ADD, KV4, ni)
		o.GetIpv4().Prefix = []string{"not-a-prefix", "300.0.0.0/8", "1.0.0.0/33", "1.0.0.0"}[g.pick(4)]
		return o
	case 5:
		o := g.entry(spb.AFTOperation_ADD, KV6, ni)
		o.GetIpv6().Prefix = []string{"2001:db8::/129", "1.0.0.0/8", "zz::/8"}[g.pick(3)]
		return o
	case 6:
		o := g.entry(spb.AFTOperation_ADD, KMPLS, ni)
		o.GetMpls().Label = &aftpb.Afts_LabelEntryKey_LabelUint64{LabelUint64: []uint64{1048576, 1<<32 + 100, 1 << 40}[g.pick(3)]}
		return o
	case 7:
		o := g.entry(spb.AFTOperation_ADD, []Kind{KV4, KV6, KMPLS}[g.pick(3)], ni)
		switch t := o.Entry.(type) {
		case *spb.AFTOperation_Ipv4:
			t.Ipv4.Ipv4Entry.NextHopGroupNetworkInstance = sv("NO-SUCH-VRF")
		case *spb.AFTOperation_Ipv6:
			t.Ipv6.Ipv6Entry.NextHopGroupNetworkInstance = sv("NO-SUCH-VRF")
		case *spb.AFTOperation_Mpls:
			t.Mpls.LabelEntry.NextHopGroupNetworkInstance = sv("NO-SUCH-VRF")
		}
		return o
	default:
		o := g.entry(spb.AFTOperation_ADD, []Kind{KV4, KV6, KMPLS}[g.pick(3)], ni)
		switch t := o.Entry.(type) {
		case *spb.AFTOperation_Ipv4:
			t.Ipv4.Ipv4Entry.NextHopGroup = u(0)
		case *spb.AFTOperation_Ipv6:
			t.Ipv6.Ipv6Entry.NextHopGroup = nil
		case *spb.AFTOperation_Mpls:
			t.Mpls.LabelEntry.NextHopGroup = u(0)
		}
		return o
	}
}

func (g *gen) batchStep(sess int, ops []*spb.AFTOperation) Step {
	st := Step{T: "modify", Sess: sess}
	for _, o := range ops {
		g.aliasIDs(o)
		st.Ops = append(st.Ops, opJSON(o))
	}
	return st
}

// aliasIDs: in some runs next-hop index 4 and group id 4 of the everyday key space are replaced,
// everywhere they occur (keys and references), by an id outside 32 bits: 2^32+3 (equal to key 3
// in its low 32 bits, so any truncation merges two keys), 2^63 or 2^64-1.
func (g *gen) aliasIDs(o *spb.AFTOperation) {
	if g.nhAlias == 0 && g.nhgAlias == 0 {
		return
	}
	nh := func(i uint64) uint64 {
		if i == 4 && g.nhAlias != 0 {
			return g.nhAlias
		}
		return i
	}
	grp := func(v *wpb.UintValue) {
		if v != nil && v.Value == 4 && g.nhgAlias != 0 {
			v.Value = g.nhgAlias
		}
	}
	switch t := o.Entry.(type) {
	case *spb.AFTOperation_NextHop:
		if t.NextHop != nil {
			t.NextHop.Index = nh(t.NextHop.Index)
		}
	case *spb.AFTOperation_NextHopGroup:
		if t.NextHopGroup != nil {
			if t.NextHopGroup.Id == 4 && g.nhgAlias != 0 {
				t.NextHopGroup.Id = g.nhgAlias
			}
			for _, n := range t.NextHopGroup.GetNextHopGroup().GetNextHop() {
				n.Index = nh(n.Index)
			}
		}
	case *spb.AFTOperation_Ipv4:
		grp(t.Ipv4.GetIpv4Entry().GetNextHopGroup())
	case *spb.AFTOperation_Ipv6:
		grp(t.Ipv6.GetIpv6Entry().GetNextHopGroup())
	case *spb.AFTOperation_Mpls:
		grp(t.Mpls.GetLabelEntry().GetNextHopGroup())
	}
}

// genG1 produces a single-primary history: modify batches, flushes, hand-overs, gets.
func genG1(seed uint64, prop string) *Scenario {
	r := rand.New(rand.NewPCG(seed, 0x6731))
	cfg := ScenCfg{Default: "DEFAULT", VRFs: []string{"VRF-A", "VRF-B"}}
	cfg.FwdRefs = r.IntN(4) != 0
	cfg.FIBAck = r.IntN(2) == 0
	cfg.Window = []int{0, 1, 2, 8}[r.IntN(4)]
	cfg.Policy = "coarse"
	cfg.VRFMode = "opt"
	cfg.GetEvery = 3 + r.IntN(6)
	switch prop {
	case "C07":
		cfg.FullPayl = true
		cfg.GetEvery = 0
	case "C08":
		cfg.ElecHigh = []uint64{0, 0, 1, 1 << 63, ^uint64(0)}[r.IntN(5)]
		cfg.LateSession = r.IntN(4) == 0
	case "C16":
		cfg.Hooks = []string{"post", "both"}[r.IntN(2)]
		cfg.VRFMode = []string{"opt", "late"}[r.IntN(2)]
	}
	if prop != "C16" && r.IntN(3) == 0 {
		// the embedding device creates its VRFs after the server has been constructed (Server.AddNetworkInstance)
		cfg.VRFMode = "late"
	}
	if r.IntN(6) == 0 {
		cfg.VRFs = []string{"VRF-A"}
	}
	sc := &Scenario{Family: "g1", Seed: seed, Cfg: cfg}
	g := newGen(seed, 0x6732, &sc.Cfg)
	if g.chance(1, 6) {
		wide := []uint64{1<<32 + 3, 1 << 63, ^uint64(0)}
		if g.chance(2, 3) {
			g.nhAlias = wide[g.pick(3)]
		}
		if g.chance(2, 3) {
			g.nhgAlias = wide[g.pick(3)]
		}
	}
	nsteps := 3 + g.pick(14)
	if g.chance(1, 5) {
		nsteps = 1 + g.pick(3) // many short runs
	}
	if deepSeed(seed) && g.chance(1, 3) {
		nsteps = 20 + g.pick(40) // thorough tier: long histories (more turnover of the small key space, more hand-overs)
	}
	sess := 0
	pendingLeave := false
	pFlush := g.pick(4)    // in 1/16ths
	pHandover := g.pick(3) // in 1/16ths
	if prop == "C08" {
		pFlush = 3 + g.pick(4)
	}
	for i := 0; i < nsteps; i++ {
		x := g.pick(16)
		switch {
		case x < pFlush:
			fs := &FlushSpec{}
			if g.chance(1, 2) {
				fs.All = true
			} else {
				fs.NI = g.ni()
			}
			fs.Override = true
			if prop == "C08" {
				// the full decision table: target selection x election field (ids relative to the highest learnt id)
				switch g.pick(8) {
				case 0:
					fs.All, fs.NI = false, "" // unset
				case 1:
					fs.All, fs.NI = false, "NO-SUCH-VRF"
				case 2:
					fs.All, fs.NI, fs.EmptyName = false, "", true
				}
				switch g.pick(8) {
				case 0:
					fs.Override = false // no election field
				case 1:
					fs.Override = false
					fs.ID = &[2]uint64{0, 0}
				case 2, 3, 4:
					fs.Override = false
					fs.RelID = 1 + g.pick(5) // 1 max, 2 max+1, 3 max-1, 4 high word +1 / low 0, 5 high word -1 / low max
					fs.ID = &[2]uint64{0, 1}
				case 5:
					fs.Override = false
					id := genID(g.r)
					fs.ID = &id
				}
			}
			sc.Steps = append(sc.Steps, Step{T: "flush", Flush: fs})
		case x < pFlush+pHandover:
			sess++
			hmode := g.pick(4) // 0: the old session stays connected, 1: it half-closes, 2: no hand-over - the primary raises its own id, 3: like 0, but the new session announces the SAME id (a tie moves the role)
			sc.Steps = append(sc.Steps, Step{T: "handover", Sess: sess, A: hmode})
			if hmode == 0 || hmode == 3 {
				pendingLeave = true
			}
			if hmode != 2 && g.chance(1, 3) {
				// a new client numbers its operations from 1 again (as every fluent client does): ids of the previous
				// session's operations - possibly still held - come round again
				g.nextID = 1
			}
		default:
			if pendingLeave && i > 0 && g.chance(1, 2) {
				// the superseded session that stayed connected goes away now, between two requests of the primary
				sc.Steps = append(sc.Steps, Step{T: "leave", A: g.pick(2)})
				pendingLeave = false
			}
			if g.chance(1, 8) && len(g.nis) > 1 {
				// cross-instance reference, flush of only the group's instance, group re-created, deletes attempted
				a, b := g.nis[g.pick(len(g.nis))], g.nis[g.pick(len(g.nis))]
				if a != b {
					nhI, gI := uint64(1+g.pick(4)), uint64(1+g.pick(4))
					mkNH := func() *spb.AFTOperation {
						return &spb.AFTOperation{Id: g.id(), NetworkInstance: a, Op: spb.AFTOperation_ADD, Entry: &spb.AFTOperation_NextHop{NextHop: g.nhPayload(nhI)}}
					}
					mkG := func() *spb.AFTOperation {
						return &spb.AFTOperation{Id: g.id(), NetworkInstance: a, Op: spb.AFTOperation_ADD, Entry: &spb.AFTOperation_NextHopGroup{NextHopGroup: &aftpb.Afts_NextHopGroupKey{Id: gI, NextHopGroup: &aftpb.Afts_NextHopGroup{NextHop: []*aftpb.Afts_NextHopGroup_NextHopKey{{Index: nhI, NextHop: &aftpb.Afts_NextHopGroup_NextHop{Weight: u(g.mark())}}}}}}}
					}
					top := g.entry(spb.AFTOperation_ADD, []Kind{KV4, KV6, KMPLS}[g.pick(3)], b)
					switch t := top.Entry.(type) {
					case *spb.AFTOperation_Ipv4:
						t.Ipv4.Ipv4Entry.NextHopGroup, t.Ipv4.Ipv4Entry.NextHopGroupNetworkInstance = u(gI), sv(a)
					case *spb.AFTOperation_Ipv6:
						t.Ipv6.Ipv6Entry.NextHopGroup, t.Ipv6.Ipv6Entry.NextHopGroupNetworkInstance = u(gI), sv(a)
					case *spb.AFTOperation_Mpls:
						t.Mpls.LabelEntry.NextHopGroup, t.Mpls.LabelEntry.NextHopGroupNetworkInstance = u(gI), sv(a)
					}
					sc.Steps = append(sc.Steps, g.batchStep(sess, []*spb.AFTOperation{mkNH(), mkG(), top}))
					sc.Steps = append(sc.Steps, Step{T: "flush", Flush: &FlushSpec{NI: []string{a, b}[g.pick(2)], Override: true}})
					sc.Steps = append(sc.Steps, g.batchStep(sess, []*spb.AFTOperation{mkNH(), mkG()}))
					sc.Steps = append(sc.Steps, g.batchStep(sess, []*spb.AFTOperation{
						{Id: g.id(), NetworkInstance: a, Op: spb.AFTOperation_DELETE, Entry: &spb.AFTOperation_NextHopGroup{NextHopGroup: &aftpb.Afts_NextHopGroupKey{Id: gI}}},
						{Id: g.id(), NetworkInstance: a, Op: spb.AFTOperation_DELETE, Entry: &spb.AFTOperation_NextHop{NextHop: &aftpb.Afts_NextHopKey{Index: nhI}}},
					}))
					continue
				}
			}
			if g.chance(1, 5) || ((prop == "C02" || prop == "C06") && g.chance(1, 5)) {
				for _, req := range g.shape() {
					sc.Steps = append(sc.Steps, g.batchStep(sess, req))
				}
				continue
			}
			if g.chance(1, 40) || (prop == "C07" && g.chance(1, 16)) {
				for _, req := range g.bulk() {
					sc.Steps = append(sc.Steps, g.batchStep(sess, req))
				}
				gs := &GetSpec{AFT: int32(aftTypeNums[g.pick(len(aftTypeNums))])}
				if g.chance(1, 2) {
					gs.All, gs.AFT = true, int32(spb.AFTType_ALL)
				} else {
					gs.NI = g.ni()
				}
				sc.Steps = append(sc.Steps, Step{T: "get", Get: gs})
				continue
			}
			var ops []*spb.AFTOperation
			if g.chance(1, 3) {
				ops = g.chain()
			} else {
				n := 1 + g.pick(6)
				for j := 0; j < n; j++ {
					if g.wInvalid > 0 && g.chance(g.wInvalid, 24) {
						ops = append(ops, g.invalidOp())
					} else {
						ops = append(ops, g.randomOp())
					}
				}
			}
			if prop == "C03" && g.chance(1, 3) {
				// sweep: try to delete every group and next-hop
				for _, ni := range g.nis {
					for id := uint64(1); id <= 4; id++ {
						if g.chance(1, 2) {
							ops = append(ops, &spb.AFTOperation{Id: g.id(), NetworkInstance: ni, Op: spb.AFTOperation_DELETE, Entry: &spb.AFTOperation_NextHopGroup{NextHopGroup: &aftpb.Afts_NextHopGroupKey{Id: id}}})
						}
						if g.chance(1, 2) {
							ops = append(ops, &spb.AFTOperation{Id: g.id(), NetworkInstance: ni, Op: spb.AFTOperation_DELETE, Entry: &spb.AFTOperation_NextHop{NextHop: &aftpb.Afts_NextHopKey{Index: id}}})
						}
					}
				}
				g.r.Shuffle(len(ops), func(i, j int) { ops[i], ops[j] = ops[j], ops[i] })
			}
			// split into requests of 1..8 operations
			for len(ops) > 0 {
				n := 1 + g.pick(8)
				if n > len(ops) {
					n = len(ops)
				}
				sc.Steps = append(sc.Steps, g.batchStep(sess, ops[:n]))
				ops = ops[n:]
			}
			if prop == "C07" && g.chance(1, 2) {
				gs := &GetSpec{AFT: int32(aftTypeNums[g.pick(len(aftTypeNums))])}
				if g.chance(1, 3) {
					gs.All = true
				} else {
					gs.NI = g.ni()
				}
				sc.Steps = append(sc.Steps, Step{T: "get", Get: gs})
			}
		}
	}
	return sc
}
