package harness

import (
	"encoding/binary"
	"fmt"
	oldrand "math/rand"
	"math/rand/v2"
	"os"
	"sort"
	"testing"
	"testing/synctest"
	"time"

	"github.com/google/uuid"
	spb "github.com/openconfig/gribi/v1/proto/service"
	"google.golang.org/protobuf/proto"

	"verifsim/simnet"
	"verifsim/simrt"
)

// RunSpec identifies one simulated execution: either (family, prop, seed) -
// the scenario and tapes are then generated from the seed - or an explicit
// scenario plus recorded tapes (replay, shrinking).
type RunSpec struct {
	Prop     string              `json:"property"`
	Family   string              `json:"family"`
	Seed     uint64              `json:"seed"`
	Scenario *Scenario           `json:"scenario,omitempty"`
	Tapes    map[string][]uint32 `json:"tapes,omitempty"`
	Replay   bool                `json:"replay,omitempty"`
	// NoKnownSoft makes violations that match a known finding abort the run like any other
	// (used when demonstrating a known finding).
	NoKnownSoft bool `json:"-"`
}

type RunResult struct {
	Spec        RunSpec             `json:"spec"`
	Outcome     string              `json:"outcome"`
	Detail      string              `json:"detail,omitempty"`
	Violations  []Violation         `json:"violations,omitempty"`
	Steps       int64               `json:"steps"`
	Switches    int64               `json:"switches"`
	Stmts       int64               `json:"stmts"`
	SimTimeMS   int64               `json:"sim_time_ms"`
	Fingerprint uint64              `json:"fingerprint"`
	Interleave  uint64              `json:"interleaving"`
	Tasks       int                 `json:"tasks"`
	Probes      map[string]int64    `json:"probes,omitempty"`
	Faults      map[string]int64    `json:"faults,omitempty"`
	ModelStates []uint64            `json:"-"`
	TapesOut    map[string][]uint32 `json:"-"`
	Events      []simrt.Event       `json:"-"`
	Nontrivial  bool                `json:"nontrivial"`
	OpsSent     int                 `json:"ops_sent"`
}

// First unknown (not matching a known finding) violation, or nil.
func (r *RunResult) FirstNew() *Violation {
	for i := range r.Violations {
		if r.Violations[i].Known == "" {
			return &r.Violations[i]
		}
	}
	return nil
}

type seededReader struct{ r *rand.Rand }

func (s seededReader) Read(p []byte) (int, error) {
	for i := 0; i < len(p); i += 8 {
		var b [8]byte
		binary.LittleEndian.PutUint64(b[:], s.r.Uint64())
		copy(p[i:], b[:])
	}
	return len(p), nil
}

// family is the entry point of one workload family.
type family struct {
	gen func(seed uint64, prop string) *Scenario
	run func(e *env)
}

var families = map[string]*family{}

// ExecRun executes one run inside a fresh synctest bubble.
func ExecRun(t *testing.T, spec RunSpec, known *KnownFindings) *RunResult {
	fam := families[spec.Family]
	if fam == nil {
		panic("unknown family " + spec.Family)
	}
	sc := spec.Scenario
	if sc == nil {
		sc = fam.gen(spec.Seed, spec.Prop)
	}
	var tapes *simrt.Tapes
	if spec.Replay {
		tapes = simrt.ReplayTapes(spec.Seed, spec.Tapes)
	} else {
		tapes = simrt.NewTapes(spec.Seed)
	}
	res := &RunResult{Spec: spec}
	res.Spec.Scenario = sc
	uuid.SetRand(seededReader{rand.New(rand.NewPCG(spec.Seed, 0x75756964))})
	if sc.Cfg.Policy == "corelease" {
		uuid.SetRand(nil) // a shared seeded reader would itself be a data race; ids need not replay in this mode
	}
	// compliance.AddIPv4EntryRandom shuffles with the global math/rand source (needs GODEBUG=randseednop=0)
	oldrand.Seed(int64(spec.Seed))
	var e *env
	var out *simrt.Outcome
	var sim *simrt.Sim
	// The bubble runs on a goroutine of its own: when the race detector has
	// reported something, testing fails the bubble's T and synctest.Test ends the
	// calling goroutine with FailNow - which must not be the worker's.
	var harnessPanic any
	bubbleDone := make(chan struct{})
	go func() {
		defer close(bubbleDone)
		defer func() {
			if r := recover(); r != nil {
				if out == nil {
					harnessPanic = r // not the end-of-bubble deadlock report: a harness bug
				}
			}
		}()
		synctest.Test(t, func(t *testing.T) {
			pol, depth := policyOf(&sc.Cfg)
			cfg := simrt.Config{Policy: pol, PCTDepth: depth, KeepEvents: 60, MaxSteps: 400000}
			if os.Getenv("VERIF_KEEP_EVENTS") != "" {
				cfg.KeepEvents = 1 << 20
			}
			if depth < 0 {
				cfg.PCTDepth, cfg.CoRelease = 0, true
			}
			sim, out = simrt.Run(cfg, tapes, func() {
				e = &env{sim: simrt.Active(), sc: sc, known: known, allOps: map[uint64]*opRec{}, modelStates: map[uint64]bool{}, noKnownSoft: spec.NoKnownSoft}
				defer func() {
					if r := recover(); r != nil {
						if _, ok := r.(abortRun); !ok {
							panic(r)
						}
					}
				}()
				fam.run(e)
			})
		})
	}()
	<-bubbleDone
	if harnessPanic != nil {
		panic(harnessPanic)
	}
	res.Outcome, res.Detail = out.Kind, out.Detail
	res.Steps, res.Switches, res.Stmts = out.Steps, out.Switches, out.Stmts
	res.SimTimeMS = int64(out.SimTime / time.Millisecond)
	res.Fingerprint, res.Interleave, res.Tasks = out.Fingerprint, out.Interleave, out.Tasks
	res.Probes, res.Faults = sim.Probes, sim.Faults
	res.TapesOut = tapes.Record()
	res.Events = sim.Events()
	if e != nil {
		res.Violations = e.viol
		if e.invalidScenario {
			res.Violations, res.Outcome = nil, "invalid-scenario"
		}
		for h := range e.modelStates {
			res.ModelStates = append(res.ModelStates, h)
		}
		sort.Slice(res.ModelStates, func(i, j int) bool { return res.ModelStates[i] < res.ModelStates[j] })
		res.OpsSent = len(e.allOps)
	}
	switch out.Kind {
	case "panic":
		if !panicInSUT(out.Detail) {
			// a bug of the harness itself: never a property violation
			panic("harness panic (not in the code under test): " + out.Detail)
		}
		res.Violations = append(res.Violations, mkSysViolation(spec.Prop, known, "panic", panicSig(out.Detail), out.Detail))
	case "stuck":
		res.Violations = append(res.Violations, mkSysViolation(spec.Prop, known, "stuck", stuckSig(out.Detail), out.Detail))
	}
	res.Nontrivial = len(sim.Faults) > 0 || out.Switches >= 8
	return res
}

func mkSysViolation(prop string, known *KnownFindings, class, sig, detail string) Violation {
	p := prop
	switch prop {
	case "C10", "C11", "C12", "C13", "C14", "C19":
	default:
		p = "C11"
	}
	v := Violation{Prop: p, Class: class, Sig: sig, Detail: detail}
	if known != nil {
		v.Known = known.Match(v)
	}
	return v
}

// panicSig extracts a stable signature from a panic report: the panic value's
// first line plus the innermost frames inside the module under test.
func panicSig(detail string) string {
	lines := splitLines(detail)
	sig := ""
	if len(lines) > 0 {
		sig = lines[0]
		if i := indexOf(sig, "panicked: "); i >= 0 {
			sig = sig[i+len("panicked: "):]
		}
	}
	n := 0
	for _, l := range lines[1:] {
		if hasPrefix(l, "github.com/openconfig/") {
			if i := indexOf(l, "("); i > 0 {
				l = l[:i]
			}
			sig += " <- " + l
			n++
			if n == 2 {
				break
			}
		}
	}
	if len(sig) > 300 {
		sig = sig[:300]
	}
	return sig
}

func stuckSig(detail string) string {
	// the set of blocking sites, without task ids
	seen := map[string]bool{}
	var sites []string
	for _, l := range splitLines(detail) {
		i := indexOf(l, "]: ")
		if i < 0 {
			continue
		}
		s := l[i+3:]
		if j := indexOf(s, " waiting for"); j >= 0 {
			s = s[:j]
		}
		if j := indexOf(s, " holding"); j >= 0 {
			s = s[:j]
		}
		if !seen[s] {
			seen[s] = true
			sites = append(sites, s)
		}
	}
	sort.Strings(sites)
	out := fmt.Sprint(sites)
	if len(out) > 300 {
		out = out[:300]
	}
	return out
}

func splitLines(s string) []string {
	var out []string
	cur := ""
	for _, c := range s {
		if c == '\n' {
			out = append(out, cur)
			cur = ""
			continue
		}
		cur += string(c)
	}
	if cur != "" {
		out = append(out, cur)
	}
	return out
}

func indexOf(s, sub string) int {
	for i := 0; i+len(sub) <= len(s); i++ {
		if s[i:i+len(sub)] == sub {
			return i
		}
	}
	return -1
}

func hasPrefix(s, p string) bool { return len(s) >= len(p) && s[:len(p)] == p }

// ---------------------------------------------------------------------------
// family g1: single-primary histories

func init() {
	families["g1"] = &family{gen: genG1, run: runG1}
}

func (e *env) setup() {
	cfg := &e.sc.Cfg
	e.srv = newServer(cfg, e)
	e.net = &simnet.Net{Srv: e.srv, Window: cfg.Window}
	e.model = NewModel(cfg.Default, cfg.VRFs, cfg.FwdRefs)
}

func runG1(e *env) {
	e.setup()
	cfg := &e.sc.Cfg
	elec := [2]uint64{cfg.ElecHigh, 1}
	var bystander *session
	if cfg.Bystander {
		// negotiated, announced a low id once, then idle: must never be disturbed
		bystander = e.openSession([2]uint64{cfg.ElecHigh, 1}, cfg.FIBAck)
	}
	var cur *session
	if !cfg.LateSession {
		cur = e.openSession(elec, cfg.FIBAck)
	}
	modifies := 0
	for i := range e.sc.Steps {
		st := &e.sc.Steps[i]
		e.step = i
		switch st.T {
		case "modify":
			if cur == nil {
				cur = e.openSession(elec, cfg.FIBAck)
			}
			if cur.dead {
				elec[1]++
				cur = e.openSession(elec, cfg.FIBAck)
			}
			e.modify(cur, st)
			modifies++
			if cfg.GetEvery > 0 && modifies%cfg.GetEvery == 0 {
				e.fullGetCheck(propForGet(e), 0)
			}
		case "flush":
			e.flush(st.Flush)
		case "get":
			e.checkGet(propForGet(e), st.Get.NI, st.Get.All, spb.AFTType(st.Get.AFT))
		case "badget":
			e.badGet(st.Get)
		case "leave":
			// an EARLIER session that is still connected goes away (half-close or cancel) while the current primary
			// may be holding operations: those stay the primary's and must still be answered when they resolve
			for _, o := range e.sess {
				if o != cur && o != bystander && o.mc != nil && !o.dead && !o.closed {
					if st.A == 0 {
						o.mc.CloseSend()
					} else {
						o.mc.Stream().Cancel()
						o.dead, o.termChecked = true, true // (ended by the client itself: no verdict on how the RPC ended)
					}
					o.closed = true
					simrt.AwaitQuiescence("third-party-leaves")
					if st.A == 0 {
						e.drainAndProcess(o)
					}
					e.probe("an earlier session left while the current primary was at work")
					for _, r := range e.allOps {
						if r.state == opHeld && r.sess == cur.idx {
							e.probe("an earlier session left while the current primary held operations")
							break
						}
					}
					break
				}
			}
		case "handover":
			if cur == nil {
				cur = e.openSession(elec, cfg.FIBAck)
				continue
			}
			if st.A == 2 && !cur.dead && !cur.closed {
				// the primary raises its OWN id and stays primary: what is held for it stays its own and is
				// answered, on its stream, when it resolves
				elec[1]++
				cur.mc.Send(&spb.ModifyRequest{ElectionId: uint128(elec)})
				simrt.AwaitQuiescence("reannounce")
				rs, _ := e.drain(cur)
				var got *spb.Uint128
				var rest []*spb.ModifyResponse
				for _, r := range rs {
					if r.GetElectionId() != nil {
						got = r.GetElectionId()
					} else {
						rest = append(rest, r)
					}
				}
				if !cur.dead && (got == nil || got.High != elec[0] || got.Low != elec[1]) {
					e.report("C05", "reported-id-not-max", "election response to the primary raising its own id", fmt.Sprintf("announced %v, server reported %v", elec, got), false)
				}
				cur.elec, e.maxElec = elec, elec
				e.primarySess, e.primaryKnown = cur.idx, true
				e.processResults(cur, rest)
				e.probe("primary raised its own election id")
				continue
			}
			if st.A == 1 && !cur.dead {
				cur.mc.CloseSend()
				cur.closed = true
				simrt.AwaitQuiescence("handover-close")
				e.drainAndProcess(cur)
			}
			if st.A != 3 {
				elec[1]++
			} else {
				// the new session announces the SAME id: the tie moves the role to it, the old session stays connected
				e.probe("primary handed over by a tie on the election id")
			}
			cur = e.openSession(elec, cfg.FIBAck)
			e.probe("primary handed over")
			for _, r := range e.allOps {
				if r.state == opHeld {
					e.probe("primary changed while operations held")
					break
				}
			}
		}
	}
	e.step = len(e.sc.Steps)
	if cfg.FullPayl {
		e.fullGetCheck("C07", 2)
	} else {
		e.fullGetCheck("C01", 1)
	}
	if bystander != nil {
		if bystander.mc.Stream().Dead() || bystander.mc.Stream().QueuedToClient() > 0 {
			e.report("C12", "bystander-disturbed", "another session was terminated or received messages", fmt.Sprintf("dead=%v result=%v queued=%d", bystander.mc.Stream().Dead(), bystander.mc.Stream().Result(), bystander.mc.Stream().QueuedToClient()), false)
		}
	}
	for _, s := range e.sess {
		if !s.dead && !s.closed {
			s.mc.CloseSend()
		}
	}
	simrt.AwaitQuiescence("end")
	for _, s := range e.sess {
		e.drainAndProcess(s)
		if s.termErr != nil && s.termErr.Error() != "EOF" && !s.closedByFault() {
			// a session we closed cleanly must end with OK
			if s.closed || !s.dead {
				e.report("C10", "clean-close-error", "half-closed session ended with an error", s.termErr.Error(), false)
			}
		}
	}
	e.afterQuiescence(nil)
}

func (s *session) closedByFault() bool { return false }

func propForGet(e *env) string {
	if e.sc.Cfg.FullPayl {
		return "C07"
	}
	return "C01"
}

// modify sends one ModifyRequest on s and runs the oracles at the following quiescent point.
func (e *env) modify(s *session, st *Step) {
	ops := st.ops()
	// keys named by the invalid operations of this request: a state difference on one of them
	// after the request means that a rejected operation had an effect (C12)
	e.invalidKeys = map[Key]string{}
	for _, op := range ops {
		if val, en, why := e.model.Analyse(op); val == Invalid && en != nil {
			e.invalidKeys[en.Key] = describeOp(op) + ": " + why
		}
	}
	for _, op := range ops {
		if op.ElectionId == nil {
			op.ElectionId = uint128(s.elec)
		}
		e.opSeq++
		rec := &opRec{op: op, sess: s.idx, seq: e.opSeq, pos: len(s.opOrder)}
		s.opOrder = append(s.opOrder, op.GetId())
		if old := e.allOps[op.GetId()]; old != nil {
			e.probe("operation id reused")
			if old.sess == s.idx {
				// Ids must be unique within a session. The generators guarantee it; a shrinking step that removes a
				// hand-over can merge two sessions whose ids overlap - such a candidate describes an invalid client,
				// not the violation being minimised: end the run without a verdict.
				e.viol = nil
				e.invalidScenario = true
				panic(abortRun{})
			}
			if os.Getenv("VERIF_DEBUG") != "" {
				fmt.Fprintf(os.Stderr, "DBG step %d id %d reused: old sess %d state %d, new sess %d\n", e.step, op.GetId(), old.sess, old.state, s.idx)
			}
			if old.sess != s.idx && (old.state == opHeld || old.state == opSent) {
				if e.shadow == nil {
					e.shadow = map[uint64]*opRec{}
				}
				e.shadow[op.GetId()] = old
				e.probe("id of an operation still held for an earlier session used again")
			}
		}
		s.sent[op.GetId()] = rec
		e.allOps[op.GetId()] = rec
	}
	e.followDiscards()
	if err := s.mc.Send(&spb.ModifyRequest{Operation: ops}); err != nil {
		s.dead = true
		return
	}
	simrt.AwaitQuiescence("modify")
	// (an earlier session that is still connected may be sent the results of operations it left held, if a
	// server routes them to their owner: they are consequences of what this request installed)
	var post []*spb.AFTResult
	for _, o := range e.sess {
		if o != s && o.mc != nil && !o.dead && !o.closed && e.sc.Family == "g1" {
			e.postpone = &post
		}
	}
	e.drainAndProcess(s)
	e.postpone = nil
	for _, o := range e.sess {
		if o != s && o.mc != nil && !o.dead && !o.closed && e.sc.Family == "g1" {
			if rs, _ := e.drain(o); len(rs) > 0 {
				e.probe("results delivered on the stream of an earlier, still connected session")
				// what is installed under the keys these results write may be their payload or the one that is
				// there now (written by the request just processed): see altPayload
				for _, r := range rs {
					for _, res := range r.GetResult() {
						if rec := o.sent[res.GetId()]; rec != nil && res.GetStatus() == spb.AFTResult_RIB_PROGRAMMED {
							if _, en, _ := e.model.Analyse(rec.op); en != nil {
								if cur := e.model.Tab[en.Key]; cur != nil && cur.Msg != nil {
									if e.altPayload == nil {
										e.altPayload = map[Key][]proto.Message{}
									}
									e.altPayload[en.Key] = append(e.altPayload[en.Key], cur.Msg)
								}
							}
						}
					}
				}
				e.processResults(o, rs)
			}
		}
	}
	if len(post) > 0 {
		e.noAlign = true
		e.processResults(s, []*spb.ModifyResponse{{Result: post}})
		e.noAlign = false
	}
	e.afterQuiescence(s)
	e.altPayload, e.ambigKeys = nil, nil
	e.invalidKeys = nil
}

func (e *env) drainAndProcess(s *session) {
	rs, term := e.drain(s)
	e.processResults(s, rs)
	if term != nil && term.Error() != "EOF" && !s.termChecked {
		s.termChecked = true
		e.probe("Modify RPC ended with an error")
		e.checkTermination(s, term)
	}
}

// panicInSUT reports whether the panicking frame chain reaches the module under
// test (or its dependencies called from it) before any harness frame.
func panicInSUT(detail string) bool {
	lines := splitLines(detail)
	// skip up to and including the last "panic(" frame (the runtime's re-panic entries)
	start := 0
	for i, l := range lines {
		if hasPrefix(l, "panic(") {
			start = i + 1
		}
	}
	for _, l := range lines[start:] {
		switch {
		case hasPrefix(l, "github.com/openconfig/gribigo/"):
			return true
		case hasPrefix(l, "verifsim/harness.") && indexOf(l, "postChangeHook") < 0 && indexOf(l, "resolvedHook") < 0:
			return false
		case hasPrefix(l, "verifsim/"):
			// simnet/simrt frames sit between the handler and the scheduler: keep looking
		}
	}
	return false
}
