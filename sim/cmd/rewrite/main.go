// Command rewrite instruments packages of the module under test for the
// deterministic simulator. It never touches the source tree: the rewritten
// files go to -out together with an overlay.json for `go build -overlay`.
//
// Rewrites (semantics-preserving outside a simulation run):
//  1. import "sync"            -> "verifsim/simsync" (same identifiers)
//  2. go f(a, b)               -> arguments evaluated in the parent, body run as a simulator task
//  3. select with >=2 comm clauses -> simrt.Select (ready cases polled in tape order)
//  4. for k, v := range <map>  -> iteration over simrt.MapKeys (sorted, then permuted by the tape)
//  5. simrt.Point("file:line") before every statement of every function body and literal
package main

import (
	"bytes"
	"encoding/json"
	"flag"
	"fmt"
	"go/ast"
	"go/format"
	"go/token"
	"go/types"
	"os"
	"path/filepath"
	"sort"
	"strconv"
	"strings"

	"golang.org/x/tools/go/packages"
)

const rtName = "_simrt"

type rw struct {
	fset  *token.FileSet
	info  *types.Info
	fname string
	n     int
	stats map[string]int
}

func main() {
	dir := flag.String("dir", "/repo", "module directory")
	out := flag.String("out", "", "output directory")
	tags := flag.String("tags", "verif", "build tags")
	flag.Parse()
	pkgs := flag.Args()
	if *out == "" || len(pkgs) == 0 {
		fmt.Fprintln(os.Stderr, "usage: rewrite -out DIR [-dir MODDIR] ./pkg ...")
		os.Exit(2)
	}
	cfg := &packages.Config{
		Mode:       packages.NeedName | packages.NeedFiles | packages.NeedCompiledGoFiles | packages.NeedSyntax | packages.NeedTypes | packages.NeedTypesInfo | packages.NeedImports | packages.NeedDeps,
		Dir:        *dir,
		BuildFlags: []string{"-tags=" + *tags},
	}
	loaded, err := packages.Load(cfg, pkgs...)
	if err != nil {
		fmt.Fprintln(os.Stderr, "load:", err)
		os.Exit(2)
	}
	overlay := map[string]string{}
	stats := map[string]int{}
	for _, p := range loaded {
		if len(p.Errors) > 0 {
			for _, e := range p.Errors {
				fmt.Fprintln(os.Stderr, "package error:", e)
			}
			os.Exit(2)
		}
		for i, f := range p.Syntax {
			src := p.CompiledGoFiles[i]
			if !strings.HasSuffix(src, ".go") || strings.HasSuffix(src, "_test.go") {
				continue
			}
			r := &rw{fset: p.Fset, info: p.TypesInfo, fname: filepath.Base(src), stats: stats}
			r.file(f)
			var buf bytes.Buffer
			if err := format.Node(&buf, p.Fset, f); err != nil {
				fmt.Fprintf(os.Stderr, "print %s: %v\n", src, err)
				os.Exit(2)
			}
			rel, _ := filepath.Rel(*dir, src)
			dst := filepath.Join(*out, rel)
			os.MkdirAll(filepath.Dir(dst), 0o755)
			if err := os.WriteFile(dst, buf.Bytes(), 0o644); err != nil {
				fmt.Fprintln(os.Stderr, err)
				os.Exit(2)
			}
			overlay[src] = dst
		}
	}
	js, _ := json.MarshalIndent(map[string]any{"Replace": overlay}, "", " ")
	if err := os.WriteFile(filepath.Join(*out, "overlay.json"), js, 0o644); err != nil {
		fmt.Fprintln(os.Stderr, err)
		os.Exit(2)
	}
	var sites []string
	for k := range allSites {
		sites = append(sites, k)
	}
	sort.Strings(sites)
	os.WriteFile(filepath.Join(*out, "sites.txt"), []byte(strings.Join(sites, "\n")+"\n"), 0o644)
	sj, _ := json.Marshal(stats)
	os.WriteFile(filepath.Join(*out, "rewrite_stats.json"), sj, 0o644)
	fmt.Printf("rewrote %d files: %s\n", len(overlay), sj)
}

var allSites = map[string]bool{}

func (r *rw) site(n ast.Node) *ast.BasicLit {
	p := r.fset.Position(n.Pos())
	s := fmt.Sprintf("%s:%d", r.fname, p.Line)
	allSites[s] = true
	return &ast.BasicLit{Kind: token.STRING, Value: strconv.Quote(s)}
}

func (r *rw) tmp(prefix string) *ast.Ident {
	r.n++
	return ast.NewIdent(fmt.Sprintf("_sim_%s%d", prefix, r.n))
}

func rt(fn string) *ast.SelectorExpr {
	return &ast.SelectorExpr{X: ast.NewIdent(rtName), Sel: ast.NewIdent(fn)}
}

func (r *rw) file(f *ast.File) {
	// keep only comments before the package clause (build constraints).
	var keep []*ast.CommentGroup
	for _, cg := range f.Comments {
		if cg.End() < f.Package {
			keep = append(keep, cg)
		}
	}
	f.Comments = keep
	f.Doc = nil
	usesSync := false
	for _, im := range f.Imports {
		if im.Path.Value == `"sync"` {
			im.Path.Value = `"verifsim/simsync"`
			if im.Name == nil {
				im.Name = ast.NewIdent("sync")
			}
			usesSync = true
			r.stats["sync_imports"]++
		}
	}
	_ = usesSync
	for _, d := range f.Decls {
		switch d := d.(type) {
		case *ast.FuncDecl:
			d.Doc = nil
			if d.Body != nil {
				r.block(d.Body)
			}
		case *ast.GenDecl:
			d.Doc = nil
			r.lits(d)
		}
	}
	// add the runtime import.
	imp := &ast.ImportSpec{Name: ast.NewIdent(rtName), Path: &ast.BasicLit{Kind: token.STRING, Value: `"verifsim/simrt"`}}
	gd := &ast.GenDecl{Tok: token.IMPORT, Specs: []ast.Spec{imp}}
	// imports must come first
	f.Decls = append([]ast.Decl{gd}, f.Decls...)
	f.Imports = append(f.Imports, imp)
	// make sure the import is used even in files without statements
	f.Decls = append(f.Decls, &ast.GenDecl{Tok: token.VAR, Specs: []ast.Spec{&ast.ValueSpec{
		Names: []*ast.Ident{ast.NewIdent("_")}, Values: []ast.Expr{rt("Point")}}}})
}

// lits instruments function literals below n (without descending into them twice).
func (r *rw) lits(n ast.Node) {
	if n == nil {
		return
	}
	ast.Inspect(n, func(x ast.Node) bool {
		if fl, ok := x.(*ast.FuncLit); ok {
			r.block(fl.Body)
			return false
		}
		return true
	})
}

func (r *rw) block(b *ast.BlockStmt) {
	if b == nil {
		return
	}
	b.List = r.list(b.List)
}

func (r *rw) point(n ast.Node) ast.Stmt {
	r.stats["points"]++
	return &ast.ExprStmt{X: &ast.CallExpr{Fun: rt("Point"), Args: []ast.Expr{r.site(n)}}}
}

func needsPoint(st ast.Stmt) bool {
	switch s := st.(type) {
	case *ast.EmptyStmt:
		return false
	case *ast.DeclStmt:
		gd, ok := s.Decl.(*ast.GenDecl)
		if !ok || gd.Tok != token.VAR {
			return false
		}
		for _, sp := range gd.Specs {
			if vs, ok := sp.(*ast.ValueSpec); ok && len(vs.Values) > 0 {
				return true
			}
		}
		return false
	}
	return true
}

func (r *rw) list(in []ast.Stmt) []ast.Stmt {
	out := make([]ast.Stmt, 0, 2*len(in))
	for _, st := range in {
		pt := needsPoint(st)
		var p ast.Stmt
		if pt {
			p = r.point(st)
		}
		st2 := r.stmt(st)
		if pt {
			out = append(out, p)
		}
		out = append(out, st2)
	}
	return out
}

func (r *rw) stmt(st ast.Stmt) ast.Stmt {
	switch s := st.(type) {
	case *ast.BlockStmt:
		r.block(s)
	case *ast.IfStmt:
		r.lits(s.Init)
		r.lits(s.Cond)
		r.block(s.Body)
		if s.Else != nil {
			s.Else = r.stmt(s.Else)
		}
	case *ast.ForStmt:
		r.lits(s.Init)
		r.lits(s.Cond)
		r.lits(s.Post)
		r.block(s.Body)
	case *ast.RangeStmt:
		r.lits(s.X)
		r.block(s.Body)
		if r.isMap(s.X) {
			return r.mapRange(s, nil)
		}
	case *ast.SwitchStmt:
		r.lits(s.Init)
		r.lits(s.Tag)
		for _, c := range s.Body.List {
			cc := c.(*ast.CaseClause)
			for _, e := range cc.List {
				r.lits(e)
			}
			cc.Body = r.list(cc.Body)
		}
	case *ast.TypeSwitchStmt:
		r.lits(s.Init)
		r.lits(s.Assign)
		for _, c := range s.Body.List {
			cc := c.(*ast.CaseClause)
			cc.Body = r.list(cc.Body)
		}
	case *ast.SelectStmt:
		comm := 0
		for _, c := range s.Body.List {
			cc := c.(*ast.CommClause)
			r.lits(cc.Comm)
			cc.Body = r.list(cc.Body)
			if cc.Comm != nil {
				comm++
			}
		}
		if comm >= 2 {
			return r.selectStmt(s)
		}
	case *ast.LabeledStmt:
		if rs, ok := s.Stmt.(*ast.RangeStmt); ok && r.isMap(rs.X) {
			r.lits(rs.X)
			r.block(rs.Body)
			return r.mapRange(rs, s.Label)
		}
		if sel, ok := s.Stmt.(*ast.SelectStmt); ok {
			// labelled select: instrument bodies only.
			for _, c := range sel.Body.List {
				cc := c.(*ast.CommClause)
				cc.Body = r.list(cc.Body)
			}
			r.stats["labelled_select_skipped"]++
			return s
		}
		s.Stmt = r.stmt(s.Stmt)
	case *ast.GoStmt:
		return r.goStmt(s)
	case *ast.CaseClause, *ast.CommClause:
		panic("clause outside switch")
	default:
		r.lits(st)
	}
	return st
}

func (r *rw) isMap(x ast.Expr) bool {
	t := r.info.TypeOf(x)
	if t == nil {
		return false
	}
	_, ok := t.Underlying().(*types.Map)
	return ok
}

// mapRange rewrites `for k, v := range m { body }` (body already instrumented).
func (r *rw) mapRange(s *ast.RangeStmt, label *ast.Ident) ast.Stmt {
	r.stats["map_ranges"]++
	m := r.tmp("m")
	kid := r.tmp("k")
	okid := r.tmp("ok")
	hoist := &ast.AssignStmt{Lhs: []ast.Expr{m}, Tok: token.DEFINE, Rhs: []ast.Expr{s.X}}
	keys := &ast.CallExpr{Fun: rt("MapKeys"), Args: []ast.Expr{r.site(s), m}}
	var pre []ast.Stmt
	blank := func(e ast.Expr) bool {
		if e == nil {
			return true
		}
		id, ok := e.(*ast.Ident)
		return ok && id.Name == "_"
	}
	idx := &ast.IndexExpr{X: m, Index: kid}
	if blank(s.Value) {
		// existence check only
		pre = append(pre, &ast.AssignStmt{Lhs: []ast.Expr{ast.NewIdent("_"), okid}, Tok: token.DEFINE, Rhs: []ast.Expr{idx}})
	} else if s.Tok == token.DEFINE {
		pre = append(pre, &ast.AssignStmt{Lhs: []ast.Expr{s.Value, okid}, Tok: token.DEFINE, Rhs: []ast.Expr{idx}})
	} else {
		pre = append(pre, &ast.DeclStmt{Decl: &ast.GenDecl{Tok: token.VAR, Specs: []ast.Spec{&ast.ValueSpec{Names: []*ast.Ident{okid}, Type: ast.NewIdent("bool")}}}})
		pre = append(pre, &ast.AssignStmt{Lhs: []ast.Expr{s.Value, okid}, Tok: token.ASSIGN, Rhs: []ast.Expr{idx}})
	}
	pre = append(pre, &ast.IfStmt{Cond: &ast.UnaryExpr{Op: token.NOT, X: okid}, Body: &ast.BlockStmt{List: []ast.Stmt{&ast.BranchStmt{Tok: token.CONTINUE}}}})
	if !blank(s.Key) {
		tok := s.Tok
		pre = append(pre, &ast.AssignStmt{Lhs: []ast.Expr{s.Key}, Tok: tok, Rhs: []ast.Expr{kid}})
		if tok == token.DEFINE {
			// the key variable may be unused in the body only if it was `_`; keep the compiler quiet anyway.
			pre = append(pre, &ast.AssignStmt{Lhs: []ast.Expr{ast.NewIdent("_")}, Tok: token.ASSIGN, Rhs: []ast.Expr{s.Key}})
		}
	}
	if !blank(s.Value) && s.Tok == token.DEFINE {
		pre = append(pre, &ast.AssignStmt{Lhs: []ast.Expr{ast.NewIdent("_")}, Tok: token.ASSIGN, Rhs: []ast.Expr{s.Value}})
	}
	body := &ast.BlockStmt{List: append(pre, s.Body.List...)}
	var loop ast.Stmt = &ast.RangeStmt{Key: ast.NewIdent("_"), Value: kid, Tok: token.DEFINE, X: keys, Body: body}
	if label != nil {
		loop = &ast.LabeledStmt{Label: label, Stmt: loop}
	}
	return &ast.BlockStmt{List: []ast.Stmt{hoist, loop}}
}

// selectStmt rewrites a select with >= 2 communication clauses (bodies already instrumented).
func (r *rw) selectStmt(s *ast.SelectStmt) ast.Stmt {
	r.stats["selects"]++
	var hoists []ast.Stmt
	var cases []ast.Expr
	var clauses []ast.Stmt
	iv, vv, okv := r.tmp("si"), r.tmp("sv"), r.tmp("sok")
	hasDefault := false
	idx := 0
	for _, c := range s.Body.List {
		cc := c.(*ast.CommClause)
		if cc.Comm == nil {
			hasDefault = true
			clauses = append(clauses, &ast.CaseClause{List: []ast.Expr{&ast.UnaryExpr{Op: token.SUB, X: &ast.BasicLit{Kind: token.INT, Value: "1"}}}, Body: cc.Body})
			continue
		}
		ch := r.tmp("c")
		var pre []ast.Stmt
		switch cm := cc.Comm.(type) {
		case *ast.SendStmt:
			val := r.tmp("sendv")
			hoists = append(hoists, &ast.AssignStmt{Lhs: []ast.Expr{ch}, Tok: token.DEFINE, Rhs: []ast.Expr{cm.Chan}})
			// evaluate the value with the channel's element type via a typed helper
			hoists = append(hoists, &ast.AssignStmt{Lhs: []ast.Expr{val}, Tok: token.DEFINE, Rhs: []ast.Expr{&ast.CallExpr{Fun: rt("SelSend"), Args: []ast.Expr{ch, cm.Value}}}})
			cases = append(cases, val)
		case *ast.ExprStmt: // <-ch
			ue := cm.X.(*ast.UnaryExpr)
			hoists = append(hoists, &ast.AssignStmt{Lhs: []ast.Expr{ch}, Tok: token.DEFINE, Rhs: []ast.Expr{ue.X}})
			cases = append(cases, &ast.CallExpr{Fun: rt("SelRecv"), Args: []ast.Expr{ch}})
		case *ast.AssignStmt: // x := <-ch ; x, ok := <-ch ; x = <-ch
			ue := cm.Rhs[0].(*ast.UnaryExpr)
			hoists = append(hoists, &ast.AssignStmt{Lhs: []ast.Expr{ch}, Tok: token.DEFINE, Rhs: []ast.Expr{ue.X}})
			cases = append(cases, &ast.CallExpr{Fun: rt("SelRecv"), Args: []ast.Expr{ch}})
			rhs := []ast.Expr{&ast.CallExpr{Fun: rt("SelVal"), Args: []ast.Expr{ch, vv}}}
			if len(cm.Lhs) == 2 {
				rhs = append(rhs, okv)
			}
			pre = append(pre, &ast.AssignStmt{Lhs: cm.Lhs, Tok: cm.Tok, Rhs: rhs})
			if cm.Tok == token.DEFINE {
				for _, l := range cm.Lhs {
					if id, ok := l.(*ast.Ident); ok && id.Name != "_" {
						pre = append(pre, &ast.AssignStmt{Lhs: []ast.Expr{ast.NewIdent("_")}, Tok: token.ASSIGN, Rhs: []ast.Expr{id}})
					}
				}
			}
		default:
			panic(fmt.Sprintf("unexpected comm clause %T", cm))
		}
		clauses = append(clauses, &ast.CaseClause{List: []ast.Expr{&ast.BasicLit{Kind: token.INT, Value: strconv.Itoa(idx)}}, Body: append(pre, cc.Body...)})
		idx++
	}
	// keep the construct a terminating statement whenever the select was one
	clauses = append(clauses, &ast.CaseClause{Body: []ast.Stmt{&ast.ExprStmt{X: &ast.CallExpr{Fun: ast.NewIdent("panic"), Args: []ast.Expr{&ast.BasicLit{Kind: token.STRING, Value: `"simrt: impossible select index"`}}}}}})
	hd := "false"
	if hasDefault {
		hd = "true"
	}
	call := &ast.CallExpr{Fun: rt("Select"), Args: append([]ast.Expr{r.site(s), ast.NewIdent(hd)}, cases...)}
	stmts := append(hoists,
		&ast.AssignStmt{Lhs: []ast.Expr{iv, vv, okv}, Tok: token.DEFINE, Rhs: []ast.Expr{call}},
		&ast.AssignStmt{Lhs: []ast.Expr{ast.NewIdent("_"), ast.NewIdent("_")}, Tok: token.ASSIGN, Rhs: []ast.Expr{vv, okv}},
		&ast.SwitchStmt{Tag: iv, Body: &ast.BlockStmt{List: clauses}},
	)
	return &ast.BlockStmt{List: stmts}
}

// goStmt rewrites `go f(args...)`.
func (r *rw) goStmt(s *ast.GoStmt) ast.Stmt {
	r.stats["go_stmts"]++
	call := s.Call
	var hoistL, hoistR []ast.Expr
	newCall := &ast.CallExpr{Ellipsis: call.Ellipsis}
	if fl, ok := call.Fun.(*ast.FuncLit); ok {
		r.block(fl.Body)
		newCall.Fun = fl
		if len(call.Args) == 0 {
			return &ast.ExprStmt{X: &ast.CallExpr{Fun: rt("Go"), Args: []ast.Expr{r.site(s), fl}}}
		}
	} else {
		r.lits(call.Fun)
		f := r.tmp("f")
		hoistL = append(hoistL, f)
		hoistR = append(hoistR, call.Fun)
		newCall.Fun = f
	}
	if call.Ellipsis.IsValid() {
		newCall.Ellipsis = 1
	}
	for _, a := range call.Args {
		r.lits(a)
		if tv, ok := r.info.Types[a]; ok && (tv.Value != nil || tv.IsNil()) {
			newCall.Args = append(newCall.Args, a) // constants and nil are evaluated in place
			continue
		}
		v := r.tmp("a")
		hoistL = append(hoistL, v)
		hoistR = append(hoistR, a)
		newCall.Args = append(newCall.Args, v)
	}
	body := &ast.FuncLit{Type: &ast.FuncType{Params: &ast.FieldList{}}, Body: &ast.BlockStmt{List: []ast.Stmt{&ast.ExprStmt{X: newCall}}}}
	goCall := &ast.ExprStmt{X: &ast.CallExpr{Fun: rt("Go"), Args: []ast.Expr{r.site(s), body}}}
	if len(hoistL) == 0 {
		return goCall
	}
	return &ast.BlockStmt{List: []ast.Stmt{
		&ast.AssignStmt{Lhs: hoistL, Tok: token.DEFINE, Rhs: hoistR},
		goCall,
	}}
}
