// Command orch is the check driver: it rebuilds the instrumented simulation
// binary from /repo's current working tree when the tree changed, fans out
// worker processes, aggregates their results, writes the evidence file and
// prints VIOLATION / KNOWN-FINDING lines.
//
//	orch check <ID> quick|thorough
//	orch replay <file>
//	orch selftest [<ID>]
//	orch build
//
// Exit codes: 0 property held on everything explored; 1 violation; 2 harness or
// build trouble (never printed as a VIOLATION).
package main

import (
	"crypto/sha256"
	"encoding/hex"
	"encoding/json"
	"fmt"
	"io"
	"io/fs"
	"os"
	"os/exec"
	"path/filepath"
	"sort"
	"strconv"
	"strings"
	"sync"
	"syscall"
	"time"
)

const goBin = "/opt/veriftools/go1.26.8/bin"

// verifDir is /verif unless VERIF_DIR names another copy of it (background sweeps
// started from a snapshot of /verif must not write into /verif's evidence);
// repoDir is /repo unless VERIF_REPO names a scratch worktree.
var (
	verifDir = envStr("VERIF_DIR", "/verif")
	repoDir  = envStr("VERIF_REPO", "/repo")
)

// outDir is where evidence and replay files go: the verif directory, except when a
// scratch worktree is being checked (sensitivity experiments), whose results must
// not replace the evidence of /repo.
func outDir() string {
	if repoDir != "/repo" {
		d := filepath.Join(verifDir, ".build", "scratch-out", filepath.Base(repoDir))
		os.MkdirAll(d, 0o755)
		return d
	}
	return verifDir
}

func envStr(name, def string) string {
	if v := os.Getenv(name); v != "" {
		return v
	}
	return def
}

func die(code int, f string, a ...any) {
	fmt.Fprintf(os.Stderr, "orch: "+f+"\n", a...)
	os.Exit(code)
}

func goEnv() []string {
	env := os.Environ()
	env = append(env, "GOFLAGS=-mod=mod", "GOPROXY=off", "GOSUMDB=off", "GOTOOLCHAIN=local",
		"PATH="+goBin+":"+os.Getenv("PATH"))
	return env
}

// treeHash hashes every Go source, go.mod and go.sum file of the working tree.
func treeHash() string {
	h := sha256.New()
	var files []string
	filepath.WalkDir(repoDir, func(p string, d fs.DirEntry, err error) error {
		if err != nil {
			return nil
		}
		if d.IsDir() {
			if d.Name() == ".git" {
				return filepath.SkipDir
			}
			return nil
		}
		if strings.HasSuffix(p, ".go") || d.Name() == "go.mod" || d.Name() == "go.sum" {
			files = append(files, p)
		}
		return nil
	})
	sort.Strings(files)
	for _, f := range files {
		b, err := os.ReadFile(f)
		if err != nil {
			continue
		}
		fmt.Fprintf(h, "%s %d\n", f, len(b))
		h.Write(b)
	}
	// the harness itself is part of the build
	filepath.WalkDir(filepath.Join(verifDir, "sim"), func(p string, d fs.DirEntry, err error) error {
		if err == nil && !d.IsDir() && (strings.HasSuffix(p, ".go") || strings.HasSuffix(p, ".s") || d.Name() == "go.mod") {
			b, _ := os.ReadFile(p)
			fmt.Fprintf(h, "%s %d\n", p, len(b))
			h.Write(b)
		}
		return nil
	})
	return hex.EncodeToString(h.Sum(nil))[:16]
}

func run(dir string, env []string, name string, args ...string) (string, error) {
	cmd := exec.Command(name, args...)
	cmd.Dir = dir
	cmd.Env = env
	out, err := cmd.CombinedOutput()
	return string(out), err
}

// ensureBuild returns the directory holding sim.test (and sim-race.test if race) for the current tree.
func ensureBuild(race bool) (string, string) {
	hash := treeHash()
	buildRoot := filepath.Join(verifDir, ".build")
	os.MkdirAll(buildRoot, 0o755)
	lock, err := os.OpenFile(filepath.Join(buildRoot, "lock"), os.O_CREATE|os.O_RDWR, 0o644)
	if err != nil {
		die(2, "lock: %v", err)
	}
	defer lock.Close()
	syscall.Flock(int(lock.Fd()), syscall.LOCK_EX)
	defer syscall.Flock(int(lock.Fd()), syscall.LOCK_UN)

	dir := filepath.Join(buildRoot, "t-"+hash)
	bin := filepath.Join(dir, "sim.test")
	want := bin
	if race {
		want = filepath.Join(dir, "sim-race.test")
	}
	if _, err := os.Stat(want); err == nil {
		now := time.Now()
		os.Chtimes(dir, now, now)
		return dir, hash
	}
	// drop builds of other trees (keep at most two)
	ents, _ := os.ReadDir(buildRoot)
	var old []string
	for _, e := range ents {
		if e.IsDir() && strings.HasPrefix(e.Name(), "t-") && e.Name() != "t-"+hash {
			old = append(old, filepath.Join(buildRoot, e.Name()))
		}
	}
	sort.Slice(old, func(i, j int) bool {
		a, _ := os.Stat(old[i])
		b, _ := os.Stat(old[j])
		return a.ModTime().Before(b.ModTime())
	})
	// builds of other trees are dropped once they have not been used for a while
	// (a check running concurrently on another tree state may still need its own)
	for _, d := range old {
		if fi, err := os.Stat(d); err == nil && time.Since(fi.ModTime()) > 45*time.Minute {
			os.RemoveAll(d)
		}
	}
	for len(old) > 6 {
		os.RemoveAll(old[0])
		old = old[1:]
	}
	os.MkdirAll(dir, 0o755)
	env := goEnv()
	simDir := filepath.Join(verifDir, "sim")
	rw := filepath.Join(buildRoot, "bin", "rewrite")
	os.MkdirAll(filepath.Dir(rw), 0o755)
	if out, err := run(simDir, env, "go", "build", "-o", rw, "./cmd/rewrite"); err != nil {
		die(2, "building the rewriter failed:\n%s", out)
	}
	rwOut := filepath.Join(dir, "rw")
	os.RemoveAll(rwOut)
	if out, err := run(simDir, env, rw, "-dir", repoDir, "-out", rwOut, "./server", "./rib", "./client"); err != nil {
		die(2, "instrumenting /repo failed (does the tree compile?):\n%s", out)
	}
	args := []string{"test", "-c", "-tags", "verif", "-overlay", filepath.Join(rwOut, "overlay.json"), "-o", want}
	if repoDir != "/repo" {
		// a scratch worktree instead of /repo: same module file with the replace directive redirected
		mod, err := os.ReadFile(filepath.Join(simDir, "go.mod"))
		if err != nil {
			die(2, "%v", err)
		}
		sum, _ := os.ReadFile(filepath.Join(simDir, "go.sum"))
		alt := filepath.Join(dir, "alt.mod")
		os.WriteFile(alt, []byte(strings.Replace(string(mod), "=> /repo", "=> "+repoDir, 1)), 0o644)
		os.WriteFile(filepath.Join(dir, "alt.sum"), sum, 0o644)
		args = append(args, "-modfile", alt)
	}
	if race {
		args = append(args, "-race")
	}
	args = append(args, "./harness")
	if out, err := run(simDir, env, "go", args...); err != nil {
		os.Remove(want)
		die(2, "building the simulation binary failed:\n%s", out)
	}
	return dir, hash
}

// ---------------------------------------------------------------------------

type propCfg struct {
	Families []string
	Level    string
	QuickS   float64
	ThorS    float64
	Rule     string
	Assume   []string
	// Points: size of the enumerated fault space (fault_enumeration checks).
	Points     int
	PointsWhat string
	// RaceFamilies run in co-release mode on the binary built with -race.
	RaceFamilies []string
}

var baseAssume = []string{
	"simnet's model of grpc-go stream semantics (DESIGN.md 3.1): reliable FIFO per stream, EOF/Canceled/Unavailable on termination",
	"the reference model (sim/harness/model.go) encodes the gRIBI specification and the property statements correctly",
	"serial scheduling: one task runs at a time, preemption at every statement boundary of server/rib/client; weak-memory effects are out of scope",
	"ygot/protobuf/grpc status packages run uninstrumented",
}

var props = map[string]propCfg{}

func propOf(id string) propCfg {
	p, ok := props[id]
	if !ok {
		die(2, "no check registered for %s", id)
	}
	if p.QuickS == 0 {
		p.QuickS = 40
	}
	if p.ThorS == 0 {
		p.ThorS = 480
	}
	if p.Level == "" {
		p.Level = "exploration"
	}
	return p
}

type job struct {
	Mode      string   `json:"mode"`
	Prop      string   `json:"property"`
	Families  []string `json:"families"`
	SeedBase  uint64   `json:"seed_base"`
	Worker    int      `json:"worker"`
	Workers   int      `json:"workers"`
	Start     int      `json:"start"`
	Count     int      `json:"count"`
	BudgetS   float64  `json:"budget_s"`
	Known     string   `json:"known"`
	Out       string   `json:"out"`
	ReplayDir string   `json:"replay_dir"`
	Replay    string   `json:"replay"`
	MaxKeep   int      `json:"max_keep"`
	Tree      string   `json:"tree"`
	RaceLog   string   `json:"race_log"`
	Cover     string   `json:"-"`
}

type violationReport struct {
	Violation  map[string]any `json:"violation"`
	ReplayFile string         `json:"replay_file"`
	Seed       uint64         `json:"seed"`
	Family     string         `json:"family"`
	ShrinkRuns int            `json:"shrink_runs"`
	StepsFrom  int            `json:"steps_before_shrink"`
	StepsTo    int            `json:"steps_after_shrink"`
	Replayed   bool           `json:"replayed_identically"`
}

type workerOut struct {
	Runs          int               `json:"runs"`
	NextIndex     int               `json:"next_index"`
	Recycle       bool              `json:"recycle"`
	Outcomes      map[string]int    `json:"outcomes"`
	Steps         int64             `json:"steps"`
	Switches      int64             `json:"switches"`
	Stmts         int64             `json:"stmts"`
	SimTimeMS     int64             `json:"sim_time_ms"`
	OpsSent       int64             `json:"ops_sent"`
	Fingerprints  []uint64          `json:"fingerprints"`
	NontrivialFP  []uint64          `json:"nontrivial_fingerprints"`
	Interleavings []uint64          `json:"interleavings"`
	ModelStates   []uint64          `json:"model_states"`
	Probes        map[string]int64  `json:"probes"`
	Faults        map[string]int64  `json:"faults"`
	KnownHits     map[string]int    `json:"known_hits"`
	KnownExample  map[string]string `json:"known_example"`
	OtherProps    map[string]int    `json:"other_property_observations"`
	OtherExample  map[string]string `json:"other_property_example"`
	Violations    []violationReport `json:"violations"`
	Samples       []json.RawMessage `json:"samples"`
	SelfTest      map[string]uint64 `json:"selftest"`
	WallS         float64           `json:"wall_s"`
	HarnessError  string            `json:"harness_error"`
}

func runWorker(bin string, j job, gomaxprocs int, timeout time.Duration) (*workerOut, error) {
	jb, _ := json.Marshal(j)
	jp := strings.TrimSuffix(j.Out, ".json") + ".job.json"
	if err := os.WriteFile(jp, jb, 0o644); err != nil {
		return nil, err
	}
	os.Remove(j.Out)
	cmd := exec.Command(bin, "-test.run", "^TestWorker$", "-test.timeout", "0")
	cmd.Env = append(os.Environ(), "VERIF_JOB="+jp, "GOMAXPROCS="+strconv.Itoa(gomaxprocs), "GODEBUG=randseednop=0")
	if j.Cover != "" {
		cmd.Env = append(cmd.Env, "VERIF_COVER="+j.Cover)
	}
	if j.RaceLog != "" {
		cmd.Env = append(cmd.Env, "GORACE=log_path="+j.RaceLog+" halt_on_error=0 history_size=3")
	}
	cmd.Stdout = io.Discard
	// the code under test logs profusely (glog): keep only the tail, in memory
	tail := &tailWriter{max: 64 << 10}
	cmd.Stderr = tail
	if err := cmd.Start(); err != nil {
		return nil, err
	}
	done := make(chan error, 1)
	go func() { done <- cmd.Wait() }()
	select {
	case <-done:
	case <-time.After(timeout):
		cmd.Process.Kill()
		<-done
		return nil, fmt.Errorf("worker %d exceeded the watchdog (%v); stderr tail:\n%s", j.Worker, timeout, tail.String())
	}
	b, err := os.ReadFile(j.Out)
	if err != nil {
		t := tail.String()
		if len(t) > 4000 {
			t = t[len(t)-4000:]
		}
		return nil, fmt.Errorf("worker %d produced no result: %v\n%s", j.Worker, err, t)
	}
	var out workerOut
	if err := json.Unmarshal(b, &out); err != nil {
		return nil, err
	}
	if out.HarnessError != "" {
		return nil, fmt.Errorf("worker %d: harness error: %s", j.Worker, out.HarnessError)
	}
	return &out, nil
}

type knownFile struct {
	Findings []struct {
		ID       string `json:"id"`
		Property string `json:"property"`
		Class    string `json:"class"`
		Sig      string `json:"sig_prefix"`
		What     string `json:"what"`
		Repro    string `json:"reproducer"`
	} `json:"findings"`
	Fixed []string `json:"fixed"`
}

func loadKnown() knownFile {
	var k knownFile
	b, err := os.ReadFile(filepath.Join(verifDir, "known_findings.json"))
	if err == nil {
		if err := json.Unmarshal(b, &k); err != nil {
			die(2, "known_findings.json: %v", err)
		}
	}
	return k
}

func envInt(name string, def int) int {
	if v := os.Getenv(name); v != "" {
		if n, err := strconv.Atoi(v); err == nil {
			return n
		}
	}
	return def
}

func check(id, tier string) int {
	start := time.Now()
	pc := propOf(id)
	if v := os.Getenv("VERIF_FAMILIES"); v != "" {
		pc.Families = strings.Split(v, ",") // experiments only: restrict the exploration to some families
	}
	race := len(pc.RaceFamilies) > 0
	dir, hash := ensureBuild(false)
	if race {
		ensureBuild(true)
	}
	buildS := time.Since(start).Seconds()
	bin := filepath.Join(dir, "sim.test")
	seed := uint64(envInt("VERIF_SEED", 1))
	budget := pc.QuickS
	if tier == "thorough" {
		budget = pc.ThorS
	}
	if v := os.Getenv("VERIF_BUDGET_S"); v != "" {
		if f, err := strconv.ParseFloat(v, 64); err == nil {
			budget = f
		}
	}
	workers := envInt("VERIF_WORKERS", 16)
	raceWorkers := 0
	if race {
		raceWorkers = workers / 4
		if raceWorkers < 1 {
			raceWorkers = 1
		}
	}
	jobsDir := filepath.Join(dir, "jobs", id+"-"+tier+"-"+strconv.Itoa(os.Getpid()))
	os.RemoveAll(jobsDir)
	os.MkdirAll(jobsDir, 0o755)
	defer os.RemoveAll(jobsDir)
	replayDir := filepath.Join(outDir(), "replays")
	knownPath := filepath.Join(verifDir, "known_findings.json")
	known := loadKnown()

	exit := 0
	var lines []string

	// 1. directed reproducers of the known findings of this property
	knownStill := map[string]bool{}
	for _, f := range known.Findings {
		if f.Property != id || f.Repro == "" {
			continue
		}
		j := job{Mode: "replay", Prop: id, Known: "/nonexistent", Out: filepath.Join(jobsDir, "known-"+f.ID+".json"), Replay: filepath.Join(verifDir, f.Repro), Tree: hash}
		out, err := runWorker(bin, j, 2, 5*time.Minute)
		if err != nil {
			die(2, "%v", err)
		}
		if len(out.Violations) > 0 {
			knownStill[f.ID] = true
			lines = append(lines, fmt.Sprintf("KNOWN-FINDING: property=%s %s [%s; reproducer %s]", id, f.What, f.ID, f.Repro))
		} else {
			lines = append(lines, fmt.Sprintf("note: known finding %s no longer reproduces with its reproducer %s", f.ID, f.Repro))
		}
	}

	// 2. exploration
	seedBase := seed * 1000003
	if tier == "thorough" {
		seedBase |= 1 << 40 // harness.DeepBit: a third of the thorough tier's runs use larger bounds
	}
	seedBaseUsed = seedBase
	type wres struct {
		out *workerOut
		err error
	}
	results := make([]wres, workers)
	var wg sync.WaitGroup
	for w := 0; w < workers; w++ {
		wg.Add(1)
		go func(w int) {
			defer wg.Done()
			agg := &workerOut{}
			startIdx := 0
			deadline := time.Now().Add(time.Duration(budget * float64(time.Second)))
			for part := 0; ; part++ {
				left := time.Until(deadline).Seconds()
				if left <= 0.5 {
					break
				}
				j := job{Mode: "explore", Prop: id, Families: pc.Families, SeedBase: seedBase, Worker: w, Workers: workers, Start: startIdx,
					Count: 1 << 30, BudgetS: left, Known: knownPath, Out: filepath.Join(jobsDir, fmt.Sprintf("w%d-%d.json", w, part)), ReplayDir: replayDir, MaxKeep: 2, Tree: hash}
				wbin, procs := bin, 1
				if w == workers-1 && os.Getenv("VERIF_COVER") == "" {
					// one worker also records which instrumented statements its runs reach (evidence: statement_reach)
					j.Cover = filepath.Join(jobsDir, "cover")
				}
				if race && w < raceWorkers {
					// the last word in concurrency: these workers run the -race binary in co-release mode
					j.Families = pc.RaceFamilies
					j.RaceLog = filepath.Join(jobsDir, fmt.Sprintf("race-w%d-%d", w, part))
					wbin, procs = filepath.Join(dir, "sim-race.test"), 4
				}
				out, err := runWorker(wbin, j, procs, time.Duration((left+600)*float64(time.Second)))
				if err != nil {
					results[w] = wres{nil, err}
					return
				}
				merge(agg, out)
				startIdx = out.NextIndex
				if !out.Recycle {
					break
				}
			}
			results[w] = wres{agg, nil}
		}(w)
	}
	wg.Wait()
	total := &workerOut{}
	for _, r := range results {
		if r.err != nil {
			die(2, "%v", r.err)
		}
		merge(total, r.out)
	}

	// 3. verdicts
	seenV := map[string]bool{}
	nviol := 0
	for _, v := range total.Violations {
		key := fmt.Sprint(v.Violation["class"], "/", v.Violation["sig"])
		if seenV[key] {
			continue
		}
		seenV[key] = true
		nviol++
		exit = 1
		lines = append(lines, fmt.Sprintf("VIOLATION property=%s replay=%s", id, v.ReplayFile))
		lines = append(lines, fmt.Sprintf("  class=%v sig=%q seed=%d family=%s shrunk %d->%d steps in %d runs; replayed identically=%v", v.Violation["class"], v.Violation["sig"], v.Seed, v.Family, v.StepsFrom, v.StepsTo, v.ShrinkRuns, v.Replayed))
		lines = append(lines, fmt.Sprintf("  %v", trunc(fmt.Sprint(v.Violation["detail"]), 600)))
	}
	for _, f := range known.Findings {
		if f.Property == id && total.KnownHits[f.ID] > 0 && !knownStill[f.ID] {
			lines = append(lines, fmt.Sprintf("KNOWN-FINDING: property=%s %s [%s; seen %d times in exploration, e.g. %s]", id, f.What, f.ID, total.KnownHits[f.ID], total.KnownExample[f.ID]))
		}
	}
	reach = statementReach(filepath.Join(jobsDir, "cover"), filepath.Join(dir, "rw", "sites.txt"))
	wall := time.Since(start).Seconds()
	writeEvidence(id, tier, seed, pc, total, nviol, wall, buildS, workers, hash, knownStill)
	for _, l := range lines {
		fmt.Println(l)
	}
	fmt.Printf("%s %s: %d runs in %.1fs (build %.1fs), %d distinct fingerprints, %d violations, known findings hit: %v\n", id, tier, total.Runs, wall, buildS, len(total.Fingerprints), nviol, total.KnownHits)
	return exit
}

var reach map[string]any
var seedBaseUsed uint64

// statementReach merges the statement-reach files of the recording worker.
func statementReach(dir, sitesFile string) map[string]any {
	b, err := os.ReadFile(sitesFile)
	if err != nil {
		return nil
	}
	sites := strings.Fields(string(b))
	hit := map[string]bool{}
	files, _ := filepath.Glob(filepath.Join(dir, "*.json"))
	for _, f := range files {
		var m map[string]int64
		if fb, err := os.ReadFile(f); err == nil && json.Unmarshal(fb, &m) == nil {
			for k, v := range m {
				if v > 0 {
					hit[k] = true
				}
			}
		}
	}
	if len(files) == 0 {
		return nil
	}
	per := map[string][2]int{}
	n := 0
	for _, s := range sites {
		fn := s[:strings.LastIndex(s, ":")]
		c := per[fn]
		c[1]++
		if hit[s] {
			c[0]++
			n++
		}
		per[fn] = c
	}
	byFile := map[string]string{}
	for fn, c := range per {
		byFile[fn] = fmt.Sprintf("%d/%d", c[0], c[1])
	}
	return map[string]any{"instrumented_statements": len(sites), "reached_by_one_worker": n, "by_file": byFile,
		"note": "statements of server/rib/client (simrt.Point sites = original source lines) executed inside simulated runs of ONE of the workers; unreached statements are listed by tools/cover_report.py"}
}

func trunc(s string, n int) string {
	if len(s) > n {
		return s[:n] + "..."
	}
	return s
}

func mergeSet(a, b []uint64) []uint64 {
	m := make(map[uint64]struct{}, len(a)+len(b))
	for _, x := range a {
		m[x] = struct{}{}
	}
	for _, x := range b {
		m[x] = struct{}{}
	}
	out := make([]uint64, 0, len(m))
	for x := range m {
		out = append(out, x)
	}
	sort.Slice(out, func(i, j int) bool { return out[i] < out[j] })
	return out
}

func merge(a, b *workerOut) {
	a.Runs += b.Runs
	a.Steps += b.Steps
	a.Switches += b.Switches
	a.Stmts += b.Stmts
	a.SimTimeMS += b.SimTimeMS
	a.OpsSent += b.OpsSent
	a.WallS += b.WallS
	a.Fingerprints = mergeSet(a.Fingerprints, b.Fingerprints)
	a.NontrivialFP = mergeSet(a.NontrivialFP, b.NontrivialFP)
	a.Interleavings = mergeSet(a.Interleavings, b.Interleavings)
	a.ModelStates = mergeSet(a.ModelStates, b.ModelStates)
	addMap := func(dst *map[string]int64, src map[string]int64) {
		if *dst == nil {
			*dst = map[string]int64{}
		}
		for k, v := range src {
			(*dst)[k] += v
		}
	}
	addMapI := func(dst *map[string]int, src map[string]int) {
		if *dst == nil {
			*dst = map[string]int{}
		}
		for k, v := range src {
			(*dst)[k] += v
		}
	}
	addMap(&a.Probes, b.Probes)
	addMap(&a.Faults, b.Faults)
	addMapI(&a.Outcomes, b.Outcomes)
	addMapI(&a.KnownHits, b.KnownHits)
	addMapI(&a.OtherProps, b.OtherProps)
	if a.OtherExample == nil {
		a.OtherExample = map[string]string{}
	}
	for k, v := range b.OtherExample {
		if a.OtherExample[k] == "" {
			a.OtherExample[k] = v
		}
	}
	if a.KnownExample == nil {
		a.KnownExample = map[string]string{}
	}
	for k, v := range b.KnownExample {
		if a.KnownExample[k] == "" {
			a.KnownExample[k] = v
		}
	}
	a.Violations = append(a.Violations, b.Violations...)
	for _, s := range b.Samples {
		if len(a.Samples) < 3 {
			a.Samples = append(a.Samples, s)
		}
	}
}

func writeEvidence(id, tier string, seed uint64, pc propCfg, t *workerOut, nviol int, wall, buildS float64, workers int, hash string, knownStill map[string]bool) {
	samples := []any{}
	for _, s := range t.Samples {
		var v any
		json.Unmarshal(s, &v)
		samples = append(samples, v)
	}
	exploreWall := wall - buildS
	if exploreWall <= 0 {
		exploreWall = wall
	}
	var kf []string
	for k := range knownStill {
		kf = append(kf, k)
	}
	sort.Strings(kf)
	// enumerated points (fault_enumeration families report them as probes "cutpoint NNN" / "faultpoint NNN")
	points := map[string]int64{}
	probes := map[string]int64{}
	for k, v := range t.Probes {
		if strings.HasPrefix(k, "cutpoint ") || strings.HasPrefix(k, "faultpoint ") {
			points[k] = v
		} else {
			probes[k] = v
		}
	}
	t.Probes = probes
	cov := map[string]any{
		"evaluations":                 t.Runs,
		"distinct_nontrivial":         len(t.NontrivialFP),
		"rule":                        pc.Rule,
		"samples":                     samples,
		"families":                    pc.Families,
		"seed_base":                   seedBaseUsed,
		"seeds":                       fmt.Sprintf("seed_base + worker + n*%d for the n-th run of a family by each of %d workers", workers, workers),
		"runs_per_hour":               int(float64(t.Runs) / exploreWall * 3600),
		"sim_time_s":                  float64(t.SimTimeMS) / 1000,
		"controller_steps":            t.Steps,
		"context_switches":            t.Switches,
		"statements_executed":         t.Stmts,
		"operations_sent":             t.OpsSent,
		"distinct_fingerprints":       len(t.Fingerprints),
		"distinct_interleavings":      len(t.Interleavings),
		"distinct_model_states":       len(t.ModelStates),
		"fault_fired":                 t.Faults,
		"probes":                      t.Probes,
		"outcomes":                    t.Outcomes,
		"known_findings_hit":          t.KnownHits,
		"known_findings_reproduced":   kf,
		"other_property_observations": t.OtherProps,
		"other_property_example":      t.OtherExample,
		"real_vs_stub": map[string]any{
			"real":  []string{"server (instrumented)", "rib (instrumented)", "client (instrumented)", "fluent", "chk", "compliance", "ygot", "protobuf", "uuid", "glog"},
			"stub":  []string{"grpc transport -> simnet", "goroutine scheduler -> simrt controller", "wall clock -> testing/synctest fake clock", "map iteration order / select choice -> tapes"},
			"notes": "device/ and cmd/ are not executed",
		},
		"statement_reach": reach,
		"tree_hash":  hash,
		"workers":    workers,
		"build_s":    buildS,
		"exhaustive": false,
	}
	if pc.Points > 0 {
		minV := int64(1 << 62)
		for _, v := range points {
			if v < minV {
				minV = v
			}
		}
		cov["enumerated_points_total"] = pc.Points
		cov["enumerated_points_visited"] = len(points)
		cov["min_runs_per_point"] = minV
		cov["exhaustive"] = len(points) == pc.Points
		cov["exhaustive_over"] = pc.PointsWhat
	}
	ev := map[string]any{
		"property_id": id,
		"tier":        tier,
		"seed":        seed,
		"level":       pc.Level,
		"coverage":    cov,
		"assumptions": append(append([]string{}, baseAssume...), pc.Assume...),
		"wall_s":      wall,
		"violations":  nviol,
	}
	os.MkdirAll(filepath.Join(outDir(), "evidence"), 0o755)
	b, _ := json.MarshalIndent(ev, "", " ")
	if err := os.WriteFile(filepath.Join(outDir(), "evidence", id+".json"), b, 0o644); err != nil {
		die(2, "evidence: %v", err)
	}
}

func replay(path string) int {
	dir, hash := ensureBuild(false)
	b, err := os.ReadFile(path)
	if err != nil {
		die(2, "%v", err)
	}
	var rf struct {
		Property  string `json:"property"`
		Violation struct {
			Prop  string `json:"property"`
			Class string `json:"class"`
			Sig   string `json:"sig"`
		} `json:"violation"`
	}
	json.Unmarshal(b, &rf)
	// Observations that match a known finding are soft during exploration (the run goes on and may then
	// meet the violation being replayed), so they must be soft here too - unless the file IS the
	// reproducer of a known finding.
	knownArg := filepath.Join(verifDir, "known_findings.json")
	for _, f := range loadKnown().Findings {
		if f.Property == rf.Violation.Prop && f.Class == rf.Violation.Class && strings.HasPrefix(rf.Violation.Sig, f.Sig) {
			knownArg = "/nonexistent"
		}
	}
	isRace := rf.Violation.Class == "data-race"
	if isRace {
		ensureBuild(true)
	}
	jobsDir := filepath.Join(dir, "jobs", "replay-"+strconv.Itoa(os.Getpid()))
	os.MkdirAll(jobsDir, 0o755)
	defer os.RemoveAll(jobsDir)
	abs, _ := filepath.Abs(path)
	j := job{Mode: "replay", Prop: rf.Property, Known: knownArg, Out: filepath.Join(jobsDir, "replay.json"), Replay: abs, Tree: hash}
	rbin, procs := filepath.Join(dir, "sim.test"), 1
	if isRace {
		rbin, procs = filepath.Join(dir, "sim-race.test"), 4
		j.RaceLog = filepath.Join(jobsDir, "race-replay")
	}
	out, err := runWorker(rbin, j, procs, 10*time.Minute)
	if err != nil {
		die(2, "%v", err)
	}
	if len(out.Violations) > 0 {
		v := out.Violations[0]
		fmt.Printf("VIOLATION property=%s replay=%s\n  class=%v sig=%q\n  %v\n", rf.Property, path, v.Violation["class"], v.Violation["sig"], v.Violation["detail"])
		return 1
	}
	fmt.Printf("replay of %s did not reproduce the violation (outcomes %v, other observations %v)\n", path, out.Outcomes, out.OtherProps)
	return 0
}

// selftest: same seeds in several fresh processes at different GOMAXPROCS must
// produce identical fingerprints.
func selftest(ids []string, n int) int {
	dir, hash := ensureBuild(false)
	bin := filepath.Join(dir, "sim.test")
	jobsDir := filepath.Join(dir, "jobs", "selftest-"+strconv.Itoa(os.Getpid()))
	os.MkdirAll(jobsDir, 0o755)
	defer os.RemoveAll(jobsDir)
	bad := 0
	for _, id := range ids {
		pc := propOf(id)
		var fams []string
		for _, f := range pc.Families {
			if !strings.HasPrefix(f, "race:") {
				fams = append(fams, f)
			}
		}
		if len(fams) == 0 {
			continue
		}
		var ref map[string]uint64
		procs := []int{1, 4, 16, 1, 16, 4}
		for len(procs) < envInt("VERIF_SELFTEST_PROCS", 6) {
			procs = append(procs, []int{1, 4, 16}[len(procs)%3]) // many same-seed processes catch rare divergences a pair would miss
		}
		var mu sync.Mutex
		var wg sync.WaitGroup
		outs := make([]map[string]uint64, len(procs))
		for i, p := range procs {
			wg.Add(1)
			go func(i, p int) {
				defer wg.Done()
				j := job{Mode: "selftest", Prop: id, Families: fams, SeedBase: 7_000_000, Count: n, Known: filepath.Join(verifDir, "known_findings.json"), Out: filepath.Join(jobsDir, fmt.Sprintf("%s-%d.json", id, i)), Tree: hash}
				out, err := runWorker(bin, j, p, 30*time.Minute)
				if err != nil {
					die(2, "%v", err)
				}
				mu.Lock()
				outs[i] = out.SelfTest
				mu.Unlock()
			}(i, p)
		}
		wg.Wait()
		ref = outs[0]
		mism := 0
		for i := 1; i < len(outs); i++ {
			for k, v := range ref {
				if outs[i][k] != v {
					mism++
					if mism < 5 {
						fmt.Printf("selftest %s: %s differs between processes (GOMAXPROCS %d vs %d)\n", id, k, procs[0], procs[i])
					}
				}
			}
		}
		fmt.Printf("selftest %s: %d runs x %d processes, %d mismatches\n", id, len(ref), len(procs), mism)
		bad += mism
	}
	if bad > 0 {
		return 2
	}
	return 0
}

func main() {
	if len(os.Args) < 2 {
		die(2, "usage: orch check <ID> quick|thorough | replay <file> | selftest [ID...] | build")
	}
	registerProps()
	switch os.Args[1] {
	case "check":
		if len(os.Args) < 4 {
			die(2, "usage: orch check <ID> quick|thorough")
		}
		tier := os.Args[3]
		if t := os.Getenv("VERIF_TIER"); t == "quick" || t == "thorough" {
			tier = t
		}
		os.Exit(check(os.Args[2], tier))
	case "replay":
		os.Exit(replay(os.Args[2]))
	case "selftest":
		ids := os.Args[2:]
		if len(ids) == 0 {
			for id := range props {
				ids = append(ids, id)
			}
			sort.Strings(ids)
		}
		os.Exit(selftest(ids, envInt("VERIF_SELFTEST_N", 40)))
	case "run": // orch run <prop> <family> <seed>: one unshrunk run, printed (debugging aid)
		dir, hash := ensureBuild(false)
		seed, _ := strconv.ParseUint(os.Args[4], 10, 64)
		j := job{Mode: "one", Prop: os.Args[2], Families: []string{os.Args[3]}, SeedBase: seed, Known: filepath.Join(verifDir, "known_findings.json"), Out: filepath.Join(dir, "one.json"), Tree: hash}
		out, err := runWorker(filepath.Join(dir, "sim.test"), j, 1, 10*time.Minute)
		if err != nil {
			die(2, "%v", err)
		}
		for _, s := range out.Samples {
			fmt.Println(string(s))
		}
	case "modeltest": // unit tests of the reference model (part of setup_cmd)
		dir, _ := ensureBuild(false)
		cmd := exec.Command(filepath.Join(dir, "sim.test"), "-test.run", "^TestModel", "-test.v")
		cmd.Env = append(os.Environ(), "VERIF_JOB=")
		out, err := cmd.CombinedOutput()
		fmt.Print(tailLines(string(out), 12))
		if err != nil {
			die(2, "the reference model's own unit tests fail")
		}
	case "build":
		dir, hash := ensureBuild(false)
		fmt.Println(dir, hash)
	default:
		die(2, "unknown command %s", os.Args[1])
	}
}

// tailWriter keeps the last max bytes written to it.
type tailWriter struct {
	mu  sync.Mutex
	buf []byte
	max int
}

func (t *tailWriter) Write(p []byte) (int, error) {
	t.mu.Lock()
	defer t.mu.Unlock()
	t.buf = append(t.buf, p...)
	if len(t.buf) > 2*t.max {
		t.buf = append([]byte(nil), t.buf[len(t.buf)-t.max:]...)
	}
	return len(p), nil
}

func (t *tailWriter) String() string {
	t.mu.Lock()
	defer t.mu.Unlock()
	if len(t.buf) > t.max {
		return string(t.buf[len(t.buf)-t.max:])
	}
	return string(t.buf)
}

func tailLines(s string, n int) string {
	lines := strings.Split(strings.TrimRight(s, "\n"), "\n")
	var keep []string
	for _, l := range lines {
		if strings.HasPrefix(l, "---") || strings.HasPrefix(l, "===") || strings.HasPrefix(l, "PASS") || strings.HasPrefix(l, "FAIL") || strings.Contains(l, "_test.go") {
			keep = append(keep, l)
		}
	}
	if len(keep) > n {
		keep = keep[len(keep)-n:]
	}
	return strings.Join(keep, "\n") + "\n"
}
