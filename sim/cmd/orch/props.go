package main

func registerProps() {
	g1rule := "each run = one seeded single-primary gRIBI history (modify batches of 1-8 ADD/REPLACE/DELETE operations over NH/NHG/IPv4/IPv6/MPLS in 2-3 network instances with dependency chains in random arrival order, flushes, primary hand-overs) executed against the real server under the deterministic scheduler with seeded map-iteration/select order; a run is non-trivial if a fault fired or >=8 context switches occurred; distinct = distinct run fingerprints (hash of the full event log)"
	props["C01"] = propCfg{Families: []string{"g1"}, Rule: g1rule + "; oracle: reference model replayed in acknowledgement order, RIBContents and Get compared with it at every quiescent point"}
}
