package main

func registerProps() {
	g1rule := "each run = one seeded single-primary gRIBI history (modify batches of 1-8 ADD/REPLACE/DELETE operations over NH/NHG/IPv4/IPv6/MPLS in 2-3 network instances with dependency chains in random arrival order, flushes, primary hand-overs) executed against the real server under the deterministic scheduler with seeded map-iteration/select order; a run is non-trivial if a fault fired or >=8 context switches occurred; distinct = distinct run fingerprints (hash of the full event log)"
	props["C01"] = propCfg{Families: []string{"g1"}, Rule: g1rule + "; oracle: reference model replayed in acknowledgement order, RIBContents and Get compared with it at every quiescent point"}
	props["C02"] = propCfg{Families: []string{"g1"}, Rule: g1rule + "; oracle: every acknowledgement justified by model resolvability at that moment, held set (hook) equals the model's and contains nothing resolvable, no dangling reference"}
	props["C03"] = propCfg{Families: []string{"g1"}, Rule: g1rule + " with DELETE sweeps over every group and next-hop; oracle: DELETE verdict == (model referrer count > 0), reference counters (hook) == referrers after every step"}
	props["C06"] = propCfg{Families: []string{"g1"}, Rule: g1rule + "; oracle over the per-stream result history: one terminal verdict per id, FIB after RIB, no foreign ids, nothing unanswered at quiescence unless legitimately held"}
	props["C07"] = propCfg{Families: []string{"g1"}, Rule: g1rule + " with payloads over every fluent-settable field; oracle: Get for every (network instance|all) x (table|ALL) equals the model field for field, ALL == disjoint union, FromGetResponses round trip"}
	props["C08"] = propCfg{Families: []string{"g1"}, Rule: g1rule + " with frequent Flush; oracle: model flush + specification status table, state/refcount comparison afterwards"}
	props["C16"] = propCfg{Families: []string{"g1"}, Rule: g1rule + " on servers with change hooks and network instances created before/after registration; oracle: fold(notifications) == model at every quiescent point, resolved-entry snapshots private"}
}
