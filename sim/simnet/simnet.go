// Package simnet is the simulated transport: in-process gRIBI streams with
// grpc-go's observable semantics (DESIGN.md §3.1) and injectable faults. It
// implements spb.GRIBIClient on the client side and hands
// spb.GRIBI_ModifyServer / spb.GRIBI_GetServer values to the real handlers.
// All state changes happen while the calling task holds the scheduler's baton.
package simnet

import (
	"context"
	"fmt"
	"io"
	"sync"
	"time"

	spb "github.com/openconfig/gribi/v1/proto/service"
	"google.golang.org/grpc"
	"google.golang.org/grpc/codes"
	"google.golang.org/grpc/metadata"
	"google.golang.org/grpc/status"
	"google.golang.org/protobuf/proto"

	"verifsim/simrt"
)

// Net connects clients to one gRIBI server implementation.
type Net struct {
	mu  sync.Mutex
	Srv spb.GRIBIServer
	// Window is the number of unread server->client messages before the server's
	// Send blocks (0 = unbounded); ReqWindow is the same for client->server.
	Window    int
	ReqWindow int
	Streams   []*Stream
	// OnModifyOpen, if set, may wrap the server-side stream (fault middleboxes).
	WrapModify func(spb.GRIBI_ModifyServer) spb.GRIBI_ModifyServer
	WrapGet    func(spb.GRIBI_GetServer) spb.GRIBI_GetServer
	// FlushHook, if set, intercepts Flush calls (next invokes the real handler).
	FlushHook func(ctx context.Context, req *spb.FlushRequest, next func() (*spb.FlushResponse, error)) (*spb.FlushResponse, error)
	// MutateReq, if set, is applied to every client->server Modify message in flight.
	MutateReq func(*spb.ModifyRequest) *spb.ModifyRequest
}

type pipe struct {
	q      []proto.Message
	closed bool // sender half-closed: EOF after drain
}

// Stream is one RPC (Modify or Get).
type Stream struct {
	// mu makes the stream's state safe when client and handler tasks really run
	// concurrently (co-release mode); it is never held across a park. Like a real
	// transport it orders a message's send before its receipt, and nothing else.
	mu   sync.Mutex
	ID   int
	Kind string
	net  *Net
	c2s  pipe
	s2c  pipe
	ctx  context.Context
	stop context.CancelFunc

	// handler termination
	finished bool
	result   error
	// abnormal termination seen by the server side / client side
	srvErr error
	cliErr error

	Sent, Recvd int // client-side counters (messages sent / responses read)

	// OnFinish, when set, runs in the handler's task at the instant the handler has returned (observation only).
	OnFinish func()
}

func (n *Net) newStream(kind string) *Stream {
	s := simrt.Active()
	st := &Stream{ID: s.NextID(), Kind: kind, net: n}
	st.ctx, st.stop = context.WithCancel(context.Background())
	if !simrt.CoRelease() {
		n.mu.Lock()
		n.Streams = append(n.Streams, st)
		n.mu.Unlock()
	}
	return st
}

// locked evaluates f under the stream mutex (conditions are evaluated by the controller).
func (st *Stream) locked(f func() bool) func() bool {
	return func() bool {
		st.mu.Lock()
		defer st.mu.Unlock()
		return f()
	}
}

func (st *Stream) name() string { return fmt.Sprintf("%s#%d", st.Kind, st.ID) }

func clone[M proto.Message](m M) M {
	var zero M
	if any(m) == nil || !m.ProtoReflect().IsValid() {
		return zero
	}
	return proto.Clone(m).(M)
}

// ---------------------------------------------------------------------------
// server side

type serverStream struct{ st *Stream }

func (s serverStream) SetHeader(metadata.MD) error  { return nil }
func (s serverStream) SendHeader(metadata.MD) error { return nil }
func (s serverStream) SetTrailer(metadata.MD)       {}
func (s serverStream) Context() context.Context     { return s.st.ctx }
func (s serverStream) SendMsg(m any) error          { return s.st.srvSend(m.(proto.Message)) }
func (s serverStream) RecvMsg(m any) error {
	r, err := s.st.srvRecv()
	if err != nil {
		return err
	}
	proto.Merge(m.(proto.Message), r)
	return nil
}

func (st *Stream) srvRecv() (proto.Message, error) {
	simrt.Sync("srv.Recv " + st.name())
	simrt.WaitUntil("srv.Recv "+st.name(), "client message on "+st.name(), 0, st.locked(func() bool {
		return len(st.c2s.q) > 0 || st.c2s.closed || st.srvErr != nil || st.finished
	}))
	st.mu.Lock()
	defer st.mu.Unlock()
	if len(st.c2s.q) > 0 {
		m := st.c2s.q[0]
		st.c2s.q = st.c2s.q[1:]
		simrt.Active().Log("srv.recv", st.name())
		return m, nil
	}
	if st.srvErr != nil {
		return nil, st.srvErr
	}
	if st.finished {
		return nil, status.Error(codes.Canceled, "context canceled")
	}
	return nil, io.EOF
}

func (st *Stream) srvSend(m proto.Message) error {
	simrt.Sync("srv.Send " + st.name())
	w := st.net.Window
	for {
		st.mu.Lock()
		if st.srvErr != nil || st.finished {
			st.mu.Unlock()
			return status.Error(codes.Unavailable, "transport is closing")
		}
		if w <= 0 || len(st.s2c.q) < w {
			st.s2c.q = append(st.s2c.q, proto.Clone(m))
			st.mu.Unlock()
			simrt.Active().Log("srv.send", st.name())
			return nil
		}
		st.mu.Unlock()
		simrt.Active().Probe("server Send blocked on flow control")
		simrt.WaitUntil("srv.Send "+st.name(), "window space on "+st.name(), 0, st.locked(func() bool {
			return len(st.s2c.q) < w || st.srvErr != nil || st.finished
		}))
	}
}

type modifyServer struct{ serverStream }

func (m modifyServer) Recv() (*spb.ModifyRequest, error) {
	r, err := m.st.srvRecv()
	if err != nil {
		return nil, err
	}
	return r.(*spb.ModifyRequest), nil
}
func (m modifyServer) Send(r *spb.ModifyResponse) error { return m.st.srvSend(r) }

type getServer struct{ serverStream }

func (g getServer) Send(r *spb.GetResponse) error { return g.st.srvSend(r) }

func (st *Stream) finish(err error) {
	simrt.Sync("handler return " + st.name())
	st.mu.Lock()
	st.finished = true
	st.result = err
	fn := st.OnFinish
	st.mu.Unlock()
	if fn != nil {
		fn()
	}
	st.stop()
	c := "OK"
	if err != nil {
		c = status.Code(err).String()
	}
	simrt.Active().Log("rpc.end", st.name()+" "+c)
}

// ---------------------------------------------------------------------------
// client side

type clientStream struct{ st *Stream }

func (c clientStream) Header() (metadata.MD, error) { return nil, nil }
func (c clientStream) Trailer() metadata.MD         { return nil }
func (c clientStream) Context() context.Context     { return c.st.ctx }
func (c clientStream) SendMsg(m any) error          { return c.st.cliSend(m.(proto.Message)) }
func (c clientStream) RecvMsg(m any) error {
	r, err := c.st.cliRecv(0)
	if err != nil {
		return err
	}
	proto.Merge(m.(proto.Message), r)
	return nil
}
func (c clientStream) CloseSend() error {
	simrt.Sync("cli.CloseSend " + c.st.name())
	c.st.mu.Lock()
	c.st.c2s.closed = true
	c.st.mu.Unlock()
	simrt.Active().Log("cli.closesend", c.st.name())
	return nil
}

func (st *Stream) cliSend(m proto.Message) error {
	simrt.Sync("cli.Send " + st.name())
	w := st.net.ReqWindow
	for {
		st.mu.Lock()
		if st.cliErr != nil || st.finished || st.c2s.closed {
			st.mu.Unlock()
			return io.EOF
		}
		if w <= 0 || len(st.c2s.q) < w {
			st.c2s.q = append(st.c2s.q, proto.Clone(m))
			st.Sent++
			st.mu.Unlock()
			simrt.Active().Log("cli.send", st.name())
			return nil
		}
		st.mu.Unlock()
		simrt.WaitUntil("cli.Send "+st.name(), "window space on "+st.name(), 0, st.locked(func() bool {
			return len(st.c2s.q) < w || st.cliErr != nil || st.finished
		}))
	}
}

// ErrTimeout is returned by RecvTimeout when nothing arrived in time.
var ErrTimeout = fmt.Errorf("simnet: receive timed out")

func (st *Stream) cliRecv(timeout time.Duration) (proto.Message, error) {
	simrt.Sync("cli.Recv " + st.name())
	ok := simrt.WaitUntil("cli.Recv "+st.name(), "server message on "+st.name(), timeout, st.locked(func() bool {
		return len(st.s2c.q) > 0 || st.finished || st.cliErr != nil
	}))
	if !ok {
		return nil, ErrTimeout
	}
	st.mu.Lock()
	defer st.mu.Unlock()
	if st.cliErr != nil {
		return nil, st.cliErr
	}
	if len(st.s2c.q) > 0 {
		m := st.s2c.q[0]
		st.s2c.q = st.s2c.q[1:]
		st.Recvd++
		simrt.Active().Log("cli.recv", st.name())
		return m, nil
	}
	if st.result == nil {
		return nil, io.EOF
	}
	if _, ok := status.FromError(st.result); ok {
		return nil, st.result
	}
	return nil, status.Error(codes.Unknown, st.result.Error())
}

// ModifyClient is the client end of a Modify RPC.
type ModifyClient struct {
	clientStream
}

func (m *ModifyClient) Send(r *spb.ModifyRequest) error {
	if f := m.st.net.MutateReq; f != nil {
		r = f(r)
	}
	return m.st.cliSend(r)
}
func (m *ModifyClient) Recv() (*spb.ModifyResponse, error) {
	r, err := m.st.cliRecv(0)
	if err != nil {
		return nil, err
	}
	return r.(*spb.ModifyResponse), nil
}

// RecvTimeout is Recv bounded by simulated time.
func (m *ModifyClient) RecvTimeout(d time.Duration) (*spb.ModifyResponse, error) {
	r, err := m.st.cliRecv(d)
	if err != nil {
		return nil, err
	}
	return r.(*spb.ModifyResponse), nil
}

// TryRecv returns a queued response without blocking; ok=false if none is
// queued. Once the queue is empty and the RPC has ended it returns the terminal
// error (io.EOF for an OK status) with ok=true.
func (m *ModifyClient) TryRecv() (*spb.ModifyResponse, error, bool) {
	st := m.st
	st.mu.Lock()
	nothing := st.cliErr == nil && len(st.s2c.q) == 0 && !st.finished
	st.mu.Unlock()
	if nothing {
		return nil, nil, false
	}
	r, err := m.Recv()
	return r, err, true
}

func (m *ModifyClient) Stream() *Stream { return m.st }

type GetClient struct {
	clientStream
}

func (g *GetClient) Recv() (*spb.GetResponse, error) {
	r, err := g.st.cliRecv(0)
	if err != nil {
		return nil, err
	}
	return r.(*spb.GetResponse), nil
}
func (g *GetClient) RecvTimeout(d time.Duration) (*spb.GetResponse, error) {
	r, err := g.st.cliRecv(d)
	if err != nil {
		return nil, err
	}
	return r.(*spb.GetResponse), nil
}
func (g *GetClient) Stream() *Stream { return g.st }

// ---------------------------------------------------------------------------
// faults (client going away)

// Cancel models the client cancelling the RPC: the server context is
// cancelled, a tape-chosen suffix of undelivered client messages is lost, and
// both ends observe Canceled.
func (st *Stream) Cancel() {
	simrt.Sync("cancel " + st.name())
	st.abort(codes.Canceled, "context canceled", "cancel")
}

// Reset models a transport failure: in-flight messages in both directions are
// (partly) lost and both ends observe Unavailable.
func (st *Stream) Reset() {
	simrt.Sync("reset " + st.name())
	st.abort(codes.Unavailable, "connection reset", "conn-reset")
}

func (st *Stream) abort(c codes.Code, msg, kind string) {
	s := simrt.Active()
	st.mu.Lock()
	defer st.mu.Unlock()
	if st.cliErr != nil {
		return
	}
	s.Fault(kind)
	if n := len(st.c2s.q); n > 0 {
		drop := s.Choose("flt", n+1)
		st.c2s.q = st.c2s.q[:n-drop]
		if drop > 0 {
			s.Probe("in-flight client messages lost")
		}
	}
	st.s2c.q = nil
	st.cliErr = status.Error(c, msg)
	st.srvErr = status.Error(c, msg)
	st.stop()
}

// Dead reports whether the RPC has terminated from the client's point of view.
func (st *Stream) Dead() bool {
	st.mu.Lock()
	defer st.mu.Unlock()
	return st.finished || st.cliErr != nil
}
func (st *Stream) Finished() bool {
	st.mu.Lock()
	defer st.mu.Unlock()
	return st.finished
}
func (st *Stream) Result() error {
	st.mu.Lock()
	defer st.mu.Unlock()
	return st.result
}
func (st *Stream) QueuedToServer() int {
	st.mu.Lock()
	defer st.mu.Unlock()
	return len(st.c2s.q)
}
func (st *Stream) QueuedToClient() int {
	st.mu.Lock()
	defer st.mu.Unlock()
	return len(st.s2c.q)
}

// ---------------------------------------------------------------------------
// spb.GRIBIClient

var _ spb.GRIBIClient = (*Net)(nil)

// OpenModify starts a Modify RPC; the handler runs as its own task.
func (n *Net) OpenModify() *ModifyClient {
	st := n.newStream("Modify")
	var srv spb.GRIBI_ModifyServer = modifyServer{serverStream{st}}
	if n.WrapModify != nil {
		srv = n.WrapModify(srv)
	}
	simrt.Go("simnet.Modify", func() {
		err := n.Srv.Modify(srv)
		st.finish(err)
	})
	return &ModifyClient{clientStream{st}}
}

func (n *Net) Modify(ctx context.Context, opts ...grpc.CallOption) (grpc.BidiStreamingClient[spb.ModifyRequest, spb.ModifyResponse], error) {
	mc := n.OpenModify()
	watchCtx(ctx, mc.st)
	return mc, nil
}

// watchCtx ties a caller-supplied context to the stream.
func watchCtx(ctx context.Context, st *Stream) {
	if ctx == nil || ctx.Done() == nil {
		return
	}
	simrt.Go("simnet.ctxwatch", func() {
		simrt.WaitUntil("ctxwatch "+st.name(), "ctx done or rpc end", 0, func() bool {
			return ctx.Err() != nil || st.Dead()
		})
		if !st.Dead() {
			st.Cancel()
		}
	})
}

func (n *Net) OpenGet(req *spb.GetRequest) *GetClient {
	st := n.newStream("Get")
	var srv spb.GRIBI_GetServer = getServer{serverStream{st}}
	if n.WrapGet != nil {
		srv = n.WrapGet(srv)
	}
	req = clone(req)
	simrt.Go("simnet.Get", func() {
		err := n.Srv.Get(req, srv)
		st.finish(err)
	})
	return &GetClient{clientStream{st}}
}

func (n *Net) Get(ctx context.Context, in *spb.GetRequest, opts ...grpc.CallOption) (grpc.ServerStreamingClient[spb.GetResponse], error) {
	gc := n.OpenGet(in)
	watchCtx(ctx, gc.st)
	return gc, nil
}

// Flush is a unary call: the handler runs as its own task, the caller waits.
func (n *Net) Flush(ctx context.Context, in *spb.FlushRequest, opts ...grpc.CallOption) (*spb.FlushResponse, error) {
	st := n.newStream("Flush")
	var resp *spb.FlushResponse
	req := clone(in)
	simrt.Go("simnet.Flush", func() {
		var r *spb.FlushResponse
		var err error
		if n.FlushHook != nil {
			r, err = n.FlushHook(st.ctx, req, func() (*spb.FlushResponse, error) { return n.Srv.Flush(st.ctx, req) })
		} else {
			r, err = n.Srv.Flush(st.ctx, req)
		}
		resp = r
		st.finish(err)
	})
	simrt.WaitUntil("Flush wait "+st.name(), "flush response", 0, st.locked(func() bool {
		return st.finished || (ctx != nil && ctx.Err() != nil)
	}))
	st.mu.Lock()
	fin := st.finished
	st.mu.Unlock()
	if !fin {
		return nil, status.FromContextError(ctx.Err()).Err()
	}
	if st.result != nil {
		if _, ok := status.FromError(st.result); ok {
			return nil, st.result
		}
		return nil, status.Error(codes.Unknown, st.result.Error())
	}
	return clone(resp), nil
}
